#!/bin/bash
# Offline setup: nothing to build (pure Python, no third-party dependency beyond /venv).
# Verifies the interpreter, that rtamt imports from the working tree, and runs the oracle self-test.
here="$(cd "$(dirname "${BASH_SOURCE[0]}")" && pwd)"
cd "$here" || exit 2
export PYTHONDONTWRITEBYTECODE=1 PYTHONHASHSEED=0
export RTVERIF_REPO="${RTVERIF_REPO:-/repo}"
export PYTHONPATH="$RTVERIF_REPO:$here"
mkdir -p evidence replays .work
/venv/bin/python -B -c "import rtverif.drive as d; print('rtamt from', d._rt)" || exit 1
if [ -f selftest/run.py ]; then /venv/bin/python -B selftest/run.py || exit 1; fi
echo "setup ok"
