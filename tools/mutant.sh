#!/bin/bash
# Developer tool: tools/mutant.sh "<python-expr transforming source text s>" <relative file> <check ids...>
# Copies /repo/rtamt to a scratch dir, rewrites one file with the python expression, runs the
# given checks against the copy (RTVERIF_REPO) and removes it.  Prints one line per check.
expr="$1"; file="$2"; shift 2
d=$(mktemp -d /tmp/rtmut.XXXXXX)
cp -r /repo/rtamt "$d/rtamt"
/venv/bin/python - "$d/$file" "$expr" <<'PY' || { echo "MUTATION DID NOT APPLY"; rm -rf "$d"; exit 3; }
import sys
p, expr = sys.argv[1], sys.argv[2]
s = open(p).read()
t = eval(expr, {'s': s})
if t == s:
    sys.exit(1)
open(p, 'w').write(t)
PY
here="$(cd "$(dirname "${BASH_SOURCE[0]}")/.." && pwd)"
for c in "$@"; do
  out=$(RTVERIF_REPO="$d" RTVERIF_QUICK_S=60 "$here/check" "$c" --tier quick 2>&1)
  rc=$?
  echo "$c rc=$rc $(echo "$out" | grep -E '^(VIOLATION|INCONCLUSIVE|HARNESS)' | head -2 | cut -c1-150 | tr '\n' '|') $(echo "$out" | grep -A1 '^VIOLATION' | grep mechanism | head -1 | cut -c1-220)"
done
git -C "$here" checkout -- evidence 2>/dev/null
rm -rf "$d"
