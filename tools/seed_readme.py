#!/usr/bin/env python3
"""Developer tool: rewrites seeded/README.md from the meta.json files (no check is run)."""
import json, os
HERE = os.path.dirname(os.path.dirname(os.path.abspath(__file__)))
S = os.path.join(HERE, 'seeded')
rows = []
for sid in sorted(os.listdir(S)):
    mp = os.path.join(S, sid, 'meta.json')
    if not os.path.exists(mp):
        continue
    m = json.load(open(mp))
    vb = m.get('verified_by_main') or {}
    rows.append((sid, m.get('property', sid[:3]), ' '.join(m.get('caught_by_quick_checks') or []) or
                 ('(see status)' if m.get('status') else '**none**'), (vb.get('suite_with_patch') or '?').split(',')[0],
                 m.get('applies_to') or '?', (m.get('status') or m.get('summary') or '')[:170].replace('\n', ' ').replace('|', '/')))
with open(os.path.join(S, 'README.md'), 'w') as fh:
    fh.write('''# Seeded breaks

Each directory holds a change to nickovic/rtamt written by an independent sub-agent that was given only the text of one
property and a scratch git worktree (nothing from /verif): `patch.diff`, the demonstration `demo.py` (PASS without the
change, FAIL with it; the 509 tests still pass with it) and `meta.json` (what it needs in order to manifest, what was run).
Suffixes: none/b = rounds 1-2, c..m = rounds 3-13 (each later agent was told the earlier changes of its property and asked
for another mechanism; from round 7 on a required flavour of manifestation was assigned, DESIGN.md section 8).
`caught by` lists the registered quick checks (seed 0) that exit 1 on the patched tree, as measured by
`tools/seedcheck.sh` / `tools/seed_report.py` on a scratch copy when the round was closed (`meta.json: checks_commit`);
`applies to` is the most recent /repo commit on which the patch applies cleanly (`tools/seed_bases.py`) - later repairs
of the repository may touch the same lines. No patch is ever applied to /repo itself.

| seed | property | caught by (quick tier, seed 0) | suite with patch | applies to | change |
|---|---|---|---|---|---|
''')
    for r in rows:
        fh.write('| %s | %s | %s | %s | %s | %s |\n' % r)
print(len(rows), 'seeds')
