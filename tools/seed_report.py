#!/usr/bin/env python3
"""Developer tool: run tools/seedcheck.sh for every seed under /verif/seeded and record, per seed, the
verification of the seed itself and which quick checks fire; writes seeded/README.md and updates meta.json."""
import json
import os
import re
import subprocess
import sys

HERE = os.path.dirname(os.path.dirname(os.path.abspath(__file__)))
SEEDED = os.path.join(HERE, 'seeded')


def main():
    only = sys.argv[1:]
    rows = []
    for sid in sorted(os.listdir(SEEDED)):
        d = os.path.join(SEEDED, sid)
        if not os.path.isdir(d) or (only and sid not in only):
            continue
        out = subprocess.run([os.path.join(HERE, 'tools', 'seedcheck.sh'), d, 'all'], capture_output=True, text=True).stdout
        head = 'PASS' if re.search(r'== demo on unmodified HEAD:.*?PASS', out, re.S) and 'rc=0' in out.split('== test suite')[0] else '?'
        suite = re.search(r'== test suite with patch:\n(.*)', out)
        suite = suite.group(1).strip() if suite else '?'
        fired = re.search(r'^fired: (.*)$', out, re.M)
        fired = fired.group(1).split() if fired else []
        mp = os.path.join(d, 'meta.json')
        try:
            meta = json.load(open(mp))
        except Exception:
            meta = {}
        meta['verified_by_main'] = {'demo_on_HEAD': head, 'suite_with_patch': suite,
                                    'how': 'tools/seedcheck.sh on a scratch copy of /repo HEAD (git archive), patch applied with git apply'}
        meta['caught_by_quick_checks'] = fired
        json.dump(meta, open(mp, 'w'), indent=1)
        rows.append((sid, meta.get('property', sid[:3]), fired, suite, (meta.get('summary') or '')[:160].replace('\n', ' ')))
        print(sid, fired, suite, flush=True)
    if only:
        return
    with open(os.path.join(SEEDED, 'README.md'), 'w') as fh:
        fh.write('# Seeded breaks\n\nEach directory holds a change to nickovic/rtamt written by an independent sub-agent that was given '
                 'only the text of one property and a scratch worktree: `patch.diff`, the demonstration `demo.py` (PASS on HEAD, FAIL '
                 'with the patch; the 509 tests still pass with the patch) and `meta.json`. The last column lists the registered '
                 'quick checks (seed 0) that exit 1 on the patched tree; produced by `tools/seed_report.py`.\n\n'
                 '| seed | property | caught by (quick tier) | suite with patch | change |\n|---|---|---|---|---|\n')
        for sid, prop, fired, suite, summ in rows:
            fh.write('| %s | %s | %s | %s | %s |\n' % (sid, prop, ' '.join(fired) or '**none**', suite.split(',')[0], summ))


if __name__ == '__main__':
    main()
