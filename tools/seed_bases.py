#!/usr/bin/env python3
"""Developer tool: for every seed under /verif/seeded find the most recent /repo commit on which its patch.diff
applies cleanly (git apply --check) and record it in meta.json as `applies_to` (+ `applies_to_head`).  Seeds are
changes to the tree of their time: later repairs of nickovic/rtamt may touch the same lines."""
import json, os, subprocess, tempfile, shutil
HERE = os.path.dirname(os.path.dirname(os.path.abspath(__file__)))
commits = subprocess.run(['git', '-C', '/repo', 'log', '--format=%h'], capture_output=True, text=True).stdout.split()
d = tempfile.mkdtemp(prefix='rtbase.')
try:
    subprocess.run(['git', 'clone', '-q', '/repo', d + '/r'], check=True)
    r = d + '/r'
    seeds = sorted(x for x in os.listdir(HERE + '/seeded') if os.path.isdir(HERE + '/seeded/' + x))
    todo = dict((s, None) for s in seeds)
    for c in commits[:70]:
        left = [s for s in seeds if todo[s] is None]
        if not left:
            break
        subprocess.run(['git', '-C', r, 'checkout', '-q', c], check=True)
        for s in left:
            p = HERE + '/seeded/%s/patch.diff' % s
            if subprocess.run(['git', '-C', r, 'apply', '--check', p], capture_output=True).returncode == 0:
                todo[s] = c
    head = commits[0]
    n = 0
    for s in seeds:
        mp = HERE + '/seeded/%s/meta.json' % s
        m = json.load(open(mp)) if os.path.exists(mp) else {}
        m['applies_to'] = todo[s]
        m['applies_to_head'] = (todo[s] == head)
        json.dump(m, open(mp, 'w'), indent=1)
        n += todo[s] == head
    print('%d seeds, %d apply to HEAD %s; others: %s' % (len(seeds), n, head,
          ' '.join('%s@%s' % (s, todo[s]) for s in seeds if todo[s] != head)))
finally:
    shutil.rmtree(d, ignore_errors=True)
