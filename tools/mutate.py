#!/usr/bin/env python3
"""Developer tool: mutation run of the registered quick checks against nickovic/rtamt.

    tools/mutate.py --n 300 --seed 1 --jobs 4 [--files REGEX] [--out DIR]

Generates single-point syntactic mutants of the library sources (comparison/arithmetic operator swaps,
min<->max, and<->or, dropped `not`, dropped unary minus, small integer constants +-1, statement deletion,
if-condition forced), samples N of them (stratified by file, seeded), and for each one, on a scratch copy of
/repo HEAD outside /repo and /verif:
  1. byte-compiles it; 2. runs the repository's 509 tests (a mutant the suite kills is not interesting);
  3. runs the 20 quick checks (fast ones first, stops at the first that exits 1).
Writes <out>/mutants.jsonl (one record per mutant) and prints a summary: suite-killed, check-killed (by which
check), survivors.  Survivors are either equivalent mutants or gaps of the checks; they are listed for reading.
Nothing is written into /repo or into /verif/evidence (RTVERIF_OUT points into the scratch directory)."""
import argparse
import ast
import copy
import json
import os
import random
import re
import shutil
import subprocess
import sys
import tempfile
import time
from concurrent.futures import ThreadPoolExecutor

HERE = os.path.dirname(os.path.dirname(os.path.abspath(__file__)))
REPO = os.environ.get('RTVERIF_REPO_SRC', '/repo')
PY = '/venv/bin/python'
FAST = ['C07', 'C17', 'C16', 'C06', 'C13', 'C09', 'C12', 'C19', 'C01', 'C04']
SLOW = ['C18', 'C03', 'C10', 'C20', 'C14', 'C02', 'C05', 'C11', 'C08', 'C15']


def target_files(rx):
    out = []
    for r, d, fs in os.walk(os.path.join(REPO, 'rtamt')):
        if '/antlr' in r or '/cpp' in r or '/lib' in r:
            continue
        for f in fs:
            if f.endswith('.py') and f != '__init__.py':
                p = os.path.relpath(os.path.join(r, f), REPO)
                if rx is None or re.search(rx, p):
                    out.append(p)
    return sorted(out)


CMP = {ast.Lt: ast.LtE, ast.LtE: ast.Lt, ast.Gt: ast.GtE, ast.GtE: ast.Gt, ast.Eq: ast.NotEq, ast.NotEq: ast.Eq}
BIN = {ast.Add: ast.Sub, ast.Sub: ast.Add, ast.Mult: ast.Div, ast.Div: ast.Mult}


class Sites(ast.NodeVisitor):
    """Enumerates mutation sites as (kind, lineno, index-of-node-in-walk, detail)."""

    def __init__(self):
        self.sites = []

    def collect(self, tree):
        for i, n in enumerate(ast.walk(tree)):
            ln = getattr(n, 'lineno', 0)
            if isinstance(n, ast.Compare) and len(n.ops) == 1 and type(n.ops[0]) in CMP:
                self.sites.append(('cmp', ln, i, type(n.ops[0]).__name__))
            elif isinstance(n, ast.BinOp) and type(n.op) in BIN:
                if isinstance(n.left, ast.Constant) and isinstance(n.left.value, str):
                    continue
                if isinstance(n.right, ast.Constant) and isinstance(n.right.value, str):
                    continue
                self.sites.append(('bin', ln, i, type(n.op).__name__))
            elif isinstance(n, ast.Call) and isinstance(n.func, ast.Name) and n.func.id in ('min', 'max'):
                self.sites.append(('minmax', ln, i, n.func.id))
            elif isinstance(n, ast.BoolOp):
                self.sites.append(('boolop', ln, i, type(n.op).__name__))
            elif isinstance(n, ast.UnaryOp) and isinstance(n.op, (ast.Not, ast.USub)):
                self.sites.append(('unary', ln, i, type(n.op).__name__))
            elif isinstance(n, ast.Constant) and isinstance(n.value, int) and not isinstance(n.value, bool) \
                    and -2 <= n.value <= 3:
                self.sites.append(('const+', ln, i, str(n.value)))
                self.sites.append(('const-', ln, i, str(n.value)))
            elif isinstance(n, ast.If):
                self.sites.append(('if-true', ln, i, ''))
                self.sites.append(('if-false', ln, i, ''))
            elif isinstance(n, (ast.Assign, ast.AugAssign, ast.Expr)) and ln:
                if isinstance(n, ast.Expr) and isinstance(n.value, ast.Constant):
                    continue        # docstring
                self.sites.append(('del-stmt', ln, i, type(n).__name__))
        return self.sites


def apply(tree, site):
    kind, ln, idx, detail = site
    tree = copy.deepcopy(tree)
    parents = {}
    for p in ast.walk(tree):
        for c in ast.iter_child_nodes(p):
            parents[id(c)] = p
    for i, n in enumerate(ast.walk(tree)):
        if i != idx:
            continue
        if kind == 'cmp':
            n.ops = [CMP[type(n.ops[0])]()]
        elif kind == 'bin':
            n.op = BIN[type(n.op)]()
        elif kind == 'minmax':
            n.func.id = 'max' if n.func.id == 'min' else 'min'
        elif kind == 'boolop':
            n.op = ast.Or() if isinstance(n.op, ast.And) else ast.And()
        elif kind == 'unary':
            par = parents[id(n)]
            for f, v in ast.iter_fields(par):
                if v is n:
                    setattr(par, f, n.operand)
                elif isinstance(v, list):
                    for k, x in enumerate(v):
                        if x is n:
                            v[k] = n.operand
        elif kind == 'const+':
            n.value = n.value + 1
        elif kind == 'const-':
            n.value = n.value - 1
        elif kind == 'if-true':
            n.test = ast.Constant(True)
        elif kind == 'if-false':
            n.test = ast.Constant(False)
        elif kind == 'del-stmt':
            par = parents[id(n)]
            for f, v in ast.iter_fields(par):
                if isinstance(v, list):
                    for k, x in enumerate(v):
                        if x is n:
                            v[k] = ast.Pass()
        break
    ast.fix_missing_locations(tree)
    return ast.unparse(tree) + '\n'


def enumerate_mutants(files):
    out = []
    for f in files:
        src = open(os.path.join(REPO, f)).read()
        try:
            tree = ast.parse(src)
        except SyntaxError:
            continue
        for s in Sites().collect(tree):
            out.append((f, s))
    return out


def run_checks(d, outd, checks, jobs):
    """Runs the checks against the tree in d, `jobs` at a time; returns the list of those that exit 1."""
    fired = []
    env = dict(os.environ, RTVERIF_REPO=d, RTVERIF_OUT=outd, RTVERIF_QUICK_S='120', PYTHONHASHSEED='0')

    def one(c):
        try:
            r = subprocess.run([os.path.join(HERE, 'check'), c, '--tier', 'quick'], env=env, capture_output=True,
                               text=True, timeout=600)
        except subprocess.TimeoutExpired:
            return c, 'timeout', ''
        m = re.search(r'mechanism=(\S+)', r.stdout)
        return c, r.returncode, (m.group(1) if m else '')

    with ThreadPoolExecutor(jobs) as ex:
        for c, rc, mech in ex.map(one, checks):
            if rc == 1:
                fired.append('%s:%s' % (c, mech))
    return fired


def work(args):
    k, (f, site), base, jobs = args
    d = tempfile.mkdtemp(prefix='rtmut.')
    rec = {'n': k, 'file': f, 'kind': site[0], 'line': site[1], 'detail': site[3]}
    try:
        subprocess.run('git -C %s archive HEAD | tar -x -C %s' % (REPO, d), shell=True, check=True)
        p = os.path.join(d, f)
        src = open(p).read()
        try:
            new = apply(ast.parse(src), site)
        except Exception as e:      # a mutation the unparser cannot express
            rec['status'] = 'not-applicable'
            return rec
        open(p, 'w').write(new)
        lines = src.splitlines()
        rec['source_line'] = lines[site[1] - 1].strip()[:160] if 0 < site[1] <= len(lines) else ''
        r = subprocess.run([PY, '-B', '-c', 'import ast,sys; ast.parse(open(sys.argv[1]).read())', p])
        if r.returncode != 0:
            rec['status'] = 'does-not-compile'
            return rec
        t0 = time.time()
        r = subprocess.run([PY, '-B', '-m', 'pytest', '-q', '-x', '-p', 'no:cacheprovider', 'tests/python'], cwd=d,
                           env=dict(os.environ, PYTHONPATH=d, PYTHONDONTWRITEBYTECODE='1'), capture_output=True,
                           text=True, timeout=900)
        tail = r.stdout.strip().splitlines()[-1] if r.stdout.strip() else ''
        if '509 passed' not in tail or 'failed' in tail or 'error' in tail:
            rec['status'] = 'killed-by-suite'
            return rec
        outd = os.path.join(d, '.rtverif-out')
        os.makedirs(outd)
        fired = run_checks(d, outd, FAST, jobs)
        if not fired:
            fired = run_checks(d, outd, SLOW, jobs)
        rec['fired'] = fired
        rec['status'] = 'killed-by-checks' if fired else 'SURVIVED'
        rec['wall'] = round(time.time() - t0, 1)
        return rec
    except Exception as e:
        rec['status'] = 'tool-error: %r' % (e,)
        return rec
    finally:
        shutil.rmtree(d, ignore_errors=True)


def main():
    ap = argparse.ArgumentParser()
    ap.add_argument('--n', type=int, default=100)
    ap.add_argument('--seed', type=int, default=1)
    ap.add_argument('--jobs', type=int, default=4, help='mutants in flight')
    ap.add_argument('--cjobs', type=int, default=4, help='checks in flight per mutant')
    ap.add_argument('--files', default=None)
    ap.add_argument('--kinds', default=None)
    ap.add_argument('--rerun', default=None, help='mutants.jsonl of an earlier run: re-test its survivors')
    ap.add_argument('--out', default=os.path.join(HERE, '.work', 'mutation'))
    a = ap.parse_args()
    if a.rerun:
        # re-test the survivors of an earlier run (same sites: file, kind, line, detail) against the checks as they are now
        want = set()
        for l in open(a.rerun):
            r = json.loads(l)
            if r.get('status') == 'SURVIVED':
                want.add((r['file'], r['kind'], r['line'], r['detail']))
        allm = [m for m in enumerate_mutants(sorted(set(w[0] for w in want)))
                if (m[0], m[1][0], m[1][1], m[1][3]) in want]
        # (several sites may share file/kind/line/detail: all of them are re-run)
        print('re-running %d surviving sites' % len(allm), flush=True)
        a.n = len(allm)
        files = sorted(set(m[0] for m in allm))
    else:
        files = target_files(a.files)
        allm = enumerate_mutants(files)
    if a.kinds:
        allm = [m for m in allm if re.search(a.kinds, m[1][0])]
    rng = random.Random(a.seed)
    # stratified by file: round-robin over shuffled per-file lists
    byf = {}
    for m in allm:
        byf.setdefault(m[0], []).append(m)
    for v in byf.values():
        rng.shuffle(v)
    order = sorted(byf)
    rng.shuffle(order)
    pick = []
    while len(pick) < a.n and any(byf.values()):
        for f in order:
            if byf[f] and len(pick) < a.n:
                pick.append(byf[f].pop())
    print('%d files, %d mutation sites, running %d' % (len(files), len(allm), len(pick)), flush=True)
    os.makedirs(a.out, exist_ok=True)
    outp = os.path.join(a.out, 'mutants.seed%d.jsonl' % a.seed)
    stat = {}
    with open(outp, 'a') as fh, ThreadPoolExecutor(a.jobs) as ex:
        for rec in ex.map(work, [(k, m, None, a.cjobs) for k, m in enumerate(pick)]):
            stat[rec['status']] = stat.get(rec['status'], 0) + 1
            fh.write(json.dumps(rec) + '\n')
            fh.flush()
            if rec['status'] in ('SURVIVED',) or rec['status'].startswith('tool-error'):
                print('%s %s:%d %s %s | %s' % (rec['status'], rec['file'], rec['line'], rec['kind'], rec['detail'],
                                               rec.get('source_line', '')), flush=True)
    print('SUMMARY', json.dumps(stat), flush=True)


if __name__ == '__main__':
    main()
