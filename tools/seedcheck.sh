#!/bin/bash
# Developer tool: tools/seedcheck.sh <dir with patch.diff + demo.py> [check ids... | all]
# 1. scratch copy of /repo HEAD: demo must PASS; 2. apply patch: 509 tests pass, demo must FAIL;
# 3. run the given checks (default: all 20, quick tier) against the patched copy; 4. remove the copy.
dir="$1"; shift
checks="$@"; [ -z "$checks" -o "$checks" = "all" ] && checks="C01 C02 C03 C04 C05 C06 C07 C08 C09 C10 C11 C12 C13 C14 C15 C16 C17 C18 C19 C20"
here="$(cd "$(dirname "${BASH_SOURCE[0]}")/.." && pwd)"
d=$(mktemp -d /tmp/rtseed.XXXXXX)
git -C /repo archive HEAD | tar -x -C "$d"
echo "== demo on unmodified HEAD:"; (cd "$d" && PYTHONPATH="$d" timeout 300 /venv/bin/python -B "$dir/demo.py" 2>&1 | tail -3); echo "rc=$?"
if ! git -C "$d" init -q 2>/dev/null; then :; fi
(cd "$d" && git apply --whitespace=nowarn "$dir/patch.diff") || { echo "PATCH DOES NOT APPLY"; rm -rf "$d"; exit 3; }
echo "== test suite with patch:"; (cd "$d" && PYTHONPATH="$d" /venv/bin/python -m pytest -q -p no:cacheprovider tests/python 2>&1 | tail -1)
echo "== demo with patch:"; (cd "$d" && PYTHONPATH="$d" timeout 300 /venv/bin/python -B "$dir/demo.py" > "$d/.demo.out" 2>&1; echo "demo exit code with patch: $?"; tail -3 "$d/.demo.out")
echo "== checks against the patched tree (tier ${TIER:-quick}, seed ${VERIF_SEED:-0}):"
work=$(mktemp -d /tmp/rtseedout.XXXXXX)
for c in $checks; do echo $c; done | xargs -P 8 -I{} bash -c "RTVERIF_REPO=$d RTVERIF_OUT=$work RTVERIF_QUICK_S=120 $here/check {} --tier ${TIER:-quick} > $work/{}.out 2>&1; echo \$? > $work/{}.rc"
for c in $checks; do
  rc=$(cat $work/$c.rc)
  if [ "$rc" != "0" ]; then echo "$c rc=$rc $(grep -A1 -E '^(VIOLATION|INCONCLUSIVE|HARNESS)' $work/$c.out | grep -E 'mechanism|INCONCLUSIVE|HARNESS' | head -2 | cut -c1-260 | tr '\n' ' ')"; fi
done
echo "fired: $(for c in $checks; do [ "$(cat $work/$c.rc)" = "1" ] && echo -n "$c "; done)"
rm -rf "$d" "$work"
