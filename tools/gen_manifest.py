#!/usr/bin/env python3
"""Regenerates /verif/MANIFEST.json from the table below (run after adding a check)."""
import json
import os
import subprocess

HERE = os.path.dirname(os.path.dirname(os.path.abspath(__file__)))

CHECKS = {
    'C01': dict(
        technique='reference-model monitor: every evaluate() return compared with an independent executable '
                  'semantics on generated formulas x traces; API-boundary shape contract; time-stamp metamorphic run',
        text='Exploration: thousands (quick) to ~10^5-10^6 (thorough) generated formula x trace cases; each returned '
             'value is compared exactly with the reference semantics. Held means: no disagreement on the executions '
             'produced; it is not a proof over all specifications.',
        note='Trusted base: rtverif/ref_discrete.py (README semantics, validated against the suite literals), the '
             'printer/generator in rtverif/lang.py, Python float arithmetic on dyadic data.',
        ref='DESIGN.md §7 C01'),
    'C02': dict(
        technique='metamorphic monitor: online update() stream vs a second execution of the real offline monitor '
                  '(whole trace and sampled prefixes), reference model for attribution and NaN taint',
        text='Exploration: generated past-time formulas (35% with duplicated sub-formula text) x traces; every '
             'update() value compared with offline evaluate(). Held = no disagreement on the executions produced.',
        note='Trusted base: the real offline monitor as comparator (itself checked by C01), rtverif/ref_discrete.py '
             'for NaN do-not-care positions.',
        ref='DESIGN.md §7 C02'),
    'C03': dict(
        technique='reference-model + metamorphic monitor: updates of the pastified online monitor vs offline '
                  'robustness of the original formula on each prefix, delayed by a harness-computed horizon',
        text='Exploration: generated bounded-future formulas (h<=12) x traces; every update i>=h compared. Nothing '
             'is masked: the former open finding D-past-over-future was repaired for discrete time (b0751cf) and '
             'its classifier deleted, so any disagreement is a VIOLATION.',
        note='Trusted base: ref_discrete.py, harness horizon computation (lang.horizon).',
        ref='DESIGN.md §7 C03'),
    'C16': dict(
        technique='metamorphic monitor: offline evaluate() on a trace and on adversarial extensions of it, compared '
                  'on the settled region t+h<|w1|',
        text='Exploration over generated formulas without unbounded future x trace/extension pairs.',
        note='Trusted base: harness horizon computation; reference semantics only for NaN do-not-care positions.',
        ref='DESIGN.md §7 C16'),
    'C18': dict(
        technique='metamorphic monitor: both sides of each stated law evaluated by the same real monitor on the '
                  'same trace',
        text='Exploration over generated operand formulas, bounds and traces for the 8 laws on the monitor kinds '
             'that support both sides.',
        note='Trusted base: the law instantiation in props/c18.py; reference semantics only for NaN positions.',
        ref='DESIGN.md §7 C18'),
    'C04': dict(
        technique='reference-model monitor on step functions: dense offline evaluate() compared as a function of '
                  'time with an exact (Fraction-time) reference at all break-points and mid-points; order and origin '
                  'contracts on the returned list; time-shift defect model for the open finding',
        text='Exploration over generated dense-time formulas x piecewise-constant signals with independent '
             'break-points. Disagreements explained by the open finding D-dense-origin (inputs not starting at 0, '
             'monitor right on the normalised inputs) are KNOWN-FINDING, all others VIOLATION.',
        note='Trusted base: rtverif/ref_dense.py (pointwise definitions; dense since/until read as non-strict with '
             'closed witness interval), function comparison on probe points, exact dyadic data.',
        ref='DESIGN.md §7 C04'),
    'C05': dict(
        technique='schedule-metamorphic monitor: the same signal fed under several chunkings through the real online '
                  'monitor; concatenated outputs checked for monotone stamps and, as step functions, against the real '
                  'offline monitor/reference on everything they cover',
        text='Exploration: generated past / pastified bounded-future dense formulas x signals x schedules (quick: 5-6 '
             'schedules per signal; thorough: all 2^(n-1) aligned chunkings for n<=6).',
        note='Trusted base: real dense offline monitor (cases where it disagrees with ref_dense are left to C04), '
             'the covered-set reading of a concatenated output.',
        ref='DESIGN.md §7 C05'),
    'C10': dict(
        technique='history-metamorphic monitor: monitor after (history; reset()) vs a brand-new monitor on the same '
                  'post-reset inputs, including the sampling-violation counter',
        text='Exploration over generated online specs (past, pastified, with sub-specs) x pre-reset histories (0..30 '
             'updates, jittered stamps) x post-reset sequences.',
        note='Trusted base: a fresh object of the same class as comparator.',
        ref='DESIGN.md §7 C10'),
    'C13': dict(
        technique='closed-form oracle in exact rational arithmetic on the counter observed at the API boundary, '
                  'online and offline; jitter-vs-ideal metamorphic run for the robustness values',
        text='Exploration over stamp sequences with gaps placed on, just inside and just outside the tolerance '
             'bounds x periods x units x tolerances.',
        note='Trusted base: the 3-line closed form in props/c13.py; stamps are in the default unit (README examples '
             '5/6).',
        ref='DESIGN.md §7 C13'),
    'C09': dict(
        technique='metamorphic monitor: modular spec (sub-specs, multi-assertion text, declared constants) vs the '
                  'harness-inlined text on the same data through the same real monitor',
        text='Exploration over random decompositions of generated formulas on 5 monitor configurations.',
        note='Trusted base: decomposition/inlining in rtverif/lang.py (inlined form = the formula the decomposition '
             'started from).',
        ref='DESIGN.md §7 C09'),
    'C11': dict(
        technique='purity monitors: deep before/after comparison of caller arguments with tripwire list/dict '
                  'subclasses locating the mutation; repeat-evaluation; solo-vs-interleaved run comparison over '
                  'several objects (shared argument objects); result digests under PYTHONHASHSEED sweep in subprocesses',
        text='Exploration over generated specs of the 4 monitor kinds, aliasing-prone shapes (bare variable under a '
             'bound longer than the trace), random interleavings of 2..4 objects, 5 (quick) / 9 (thorough) hash seeds.',
        note='Trusted base: list/dict subclasses behave like builtins; per-object call order is preserved by the '
             'interleaver.',
        ref='DESIGN.md §7 C11'),
    'C12': dict(
        technique='metamorphic monitor: get_value(name) after every evaluate()/update() vs a stand-alone real spec '
                  'for the formula bound to that name; input variables vs the supplied data',
        text='Exploration over generated modular specs with 1..4 names on 5 monitor configurations (incl. pastified).',
        note='Trusted base: harness computation of the formula bound to each name; get_value of input variables is '
             'only demanded for variables the specification uses.',
        ref='DESIGN.md §7 C12'),
    'C17': dict(
        technique='exception-class monitor at the API boundary over a harness support matrix: supported + well-formed '
                  '=> every call returns; unsupported => RTAMTException by the first evaluation; logical work monitor '
                  '(rtamt function bodies entered, counted with sys.monitoring) on wide specifications',
        text='Exploration over the whole operator alphabet x 6 monitor configurations x degenerate data shapes, plus '
             'enumerated wide (14-16 operands / levels: work bounded by 300 function entries per syntax node) and deep '
             '(190-320 operands / levels) specifications. RecursionError on a specification of 150 or more levels is the '
             'open finding D-recursion-depth (KNOWN-FINDING); anything else is a VIOLATION.',
        note='Trusted base: the support matrix in props/c17.py (transcribed from the statement).',
        ref='DESIGN.md §7 C17'),
    'C19': dict(
        technique='cross-domain metamorphic monitor: the same grid-aligned data through the real dense-time and the '
                  'real discrete-time offline monitors, compared at the sampling instants',
        text='Exploration over the stated fragment x periods {1, 1/2, 2, 1/4} x step signals.',
        note='Trusted base: bound scaling (samples -> seconds) in props/c19.py; harness horizon.',
        ref='DESIGN.md §7 C19'),
    'C08': dict(
        technique='notation-metamorphic monitor: the same durations spelled in other units / default unit / period '
                  'unit / declared constants through the real monitors (offline, online, pastified, dense) vs the '
                  'canonical notation; exception-class monitor for non-multiple bounds',
        text='Exploration over generated formulas x 5 periods x 4 default units x 7 spellings; non-multiple bounds '
             'must raise RTAMTException (also after pastify()).',
        note='Trusted base: duration printer props/c08.py:dur_in (exact decimal literals), canonical run = bounds in '
             'samples with period 1 s.',
        ref='DESIGN.md §7 C08'),
    'C15': dict(
        technique='spelling-metamorphic monitor: canonical text vs alias / separator / parenthesisation variants, LTL '
                  'front end and the unless expansion through the real parser+monitor; exhaustive enumeration of '
                  'adjacent operator pairs for the precedence part',
        text='Exploration over generated formulas x 9 variant kinds + every ordered pair of operators adjacent in 4 '
             'shapes (1008 combinations, enumerated in every run).',
        note='Trusted base: precedence table lang.LEVEL transcribed from StlParser.g4 and the minimal-parentheses '
             'printer lang.to_variant.',
        ref='DESIGN.md §7 C15'),
    'C14': dict(
        technique='differential fuzzing monitor: parse() outcome (accept / RTAMTException / other exception / watchdog) '
                  'on mutated texts vs an independent maximal-munch lexer + Earley recogniser of the .g4 grammars and '
                  'interval side conditions; stderr capture of the ANTLR console listener; declared-vs-undeclared '
                  'metamorphic run for identifiers',
        text='Exploration: thousands of token-, character- and structure-level mutants of generated valid texts per '
             'run; acceptance is only allowed for derivable texts, the only exception class allowed is '
             'RTAMTException; termination is checked as bounded (20 s watchdog, firing = inconclusive).',
        note='Trusted base: rtverif/grammar.py (validated on every text the generators print); rejection of a '
             'derivable text with RTAMTException is not a violation.',
        ref='DESIGN.md §7 C14'),
    'C06': dict(
        technique='reference-model monitor with a predicate override per IA semantics (io-assignment aware) against '
                  'the real monitors of the 4 kinds; io-flip metamorphic run under STANDARD',
        text='Exploration over generated formulas x 5 semantics x random io assignments x 4 monitor kinds.',
        note='Trusted base: ref_discrete/ref_dense + the 20-line override in props/c06.py; io types set before '
             'parse().',
        ref='DESIGN.md §7 C06'),
    'C07': dict(
        technique='independent Boolean evaluator (two-point lattice) vs the sign of every value the real monitors '
                  'return; perturbation monitor: traces within the reported robustness ball must keep the verdict',
        text='Exploration over iff/xor-free Boolean-typed formulas on the 4 monitor kinds; 8 (quick) / 32 (thorough) '
             'perturbations per case (corners + interior points), not the whole ball.',
        note='Trusted base: rtverif/ref_bool.py (shares the temporal evaluator with the quantitative reference, '
             'predicates mapped to +-1 with strictness).',
        ref='DESIGN.md §7 C07'),
    'C20': dict(
        technique='brute-force sufficiency monitor: after evaluate()+explain() on the real spec, the non-reported '
                  '(variable, sample) positions are re-assigned over a finite decisive value domain (exhaustively when '
                  'small) and every candidate is judged by the reference and confirmed with the real evaluate()',
        text='Exploration over the explainer fragment x short traces; exhaustive over the finite domain for cases '
             'with <=3000 combinations, sampled otherwise. An under-approximation of "all re-assignments".',
        note='Trusted base: ref_discrete.py as fast judge (every counter-example is confirmed with the real '
             'monitor), the domain construction in props/c20.py.',
        ref='DESIGN.md §7 C20'),
}

NOT_APPLICABLE = {}


def main():
    hooks_commits = []
    checks = []
    for pid in sorted(CHECKS):
        c = CHECKS[pid]
        checks.append({
            'property_id': pid,
            'quick_cmd': './check %s --tier quick' % pid,
            'thorough_cmd': './check %s --tier thorough' % pid,
            'evidence_file': 'evidence/%s.json' % pid,
            'replay_cmd_template': './check %s --replay {path}' % pid,
            'engine': 'rtverif',
            'level_claimed': {'category': 'exploration', 'text': c['text'], 'design_ref': c['ref']},
            'level_note': c['note'],
            'technique': c['technique'],
        })
    all_ids = ['C%02d' % i for i in range(1, 21)]
    na = []
    for pid in all_ids:
        if pid not in CHECKS:
            na.append({'property_id': pid,
                       'reason': NOT_APPLICABLE.get(pid, 'check not built yet in this round (runtime monitoring '
                                                         'applies; see DESIGN.md §7)')})
    m = {
        'version': 1,
        'setup_cmd': './setup.sh',
        'hooks': {
            'guard': 'RTVERIF',
            'enable': 'no hooks live in /repo: all observation points are attached from the harness '
                      '(API-boundary wrappers, class-attribute patching, sys.monitoring); checks import rtamt '
                      'straight from the working tree via PYTHONPATH=$RTVERIF_REPO (default /repo)',
            'baseline_off_cmd': './run_baseline.sh',
            'source_commits': hooks_commits,
            'add_only': True,
        },
        'engines': [{'name': 'rtverif', 'path': 'rtverif/', 'serves_properties': sorted(CHECKS),
                     'kind_free_text': 'runtime monitoring: generated hostile workloads driven through the real '
                                       'rtamt API, reference-model / metamorphic / closed-form oracles at the API '
                                       'boundary, sys.monitoring telemetry of the rtamt bodies entered'}],
        'checks': checks,
        'not_applicable': na,
        'notes': 'All checks: exit 0 held on what was explored, exit 1 + VIOLATION line for a violation not listed '
                 'in known_findings.json, exit 2 + INCONCLUSIVE line when the deciding monitor saw too little.',
    }
    with open(os.path.join(HERE, 'MANIFEST.json'), 'w') as fh:
        json.dump(m, fh, indent=1)
    print('wrote MANIFEST.json: %d checks, %d not_applicable' % (len(checks), len(na)))


if __name__ == '__main__':
    main()
