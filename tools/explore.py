#!/venv/bin/python
"""Developer tool: run N generated cases of a property, shrink every violation and print the
distinct shrunk witnesses (grouped by mechanism + operator skeleton).  Not a registered check."""
import os
import sys
import random
import collections

HERE = os.path.dirname(os.path.dirname(os.path.abspath(__file__)))
sys.path.insert(0, os.environ.get('RTVERIF_REPO', '/repo'))
sys.path.insert(0, HERE)
import importlib
from rtverif import lang, runner


def skeleton(f):
    if lang.is_leaf(f):
        return f[0][0]
    iv = '' if f[1] is None else ('[%s]' % ('z' if f[1] == (0, 0) else 'p' if f[1][0] == f[1][1] else
                                            '0b' if f[1][0] == 0 else 'ab'))
    return '%s%s(%s)' % (f[0], iv, ','.join(skeleton(k) for k in lang.kids(f)))


def main():
    pid = sys.argv[1]
    n = int(sys.argv[2]) if len(sys.argv) > 2 else 1000
    seed = int(sys.argv[3]) if len(sys.argv) > 3 else 0
    only_new = '--new' in sys.argv
    out = sys.stdout
    sys.stdout = open(os.devnull, 'w')
    mod = importlib.import_module('rtverif.props.%s' % pid.lower())
    P = mod.PROP
    from rtverif.props import base as _base
    _base.limit_resources()
    ctx = runner.Ctx(pid, 'quick', seed)
    rng = random.Random(seed)
    groups = collections.OrderedDict()
    nviol = 0
    for i in range(n):
        case = P.gen(rng, ctx)
        case = P.normalise(case)
        v, t_o = _base.guarded(P.judge, 30, case)
        if t_o:
            out.write('WATCHDOG %r\n' % (P.brief(case),))
            continue
        if v.skip or not v.viol:
            continue
        nviol += 1
        for mech, known, msg in v.viol[:1]:
            if only_new and known:
                continue
            small = case
            if P.shrinkable(case):
                small = P.shrink(case, mech)
            v2 = P.judge(small)
            for m2, k2, msg2 in v2.viol:
                if m2 == mech:
                    known, msg = k2, msg2
            sk = (mech, known, skeleton(small['formula']) if 'formula' in small else '')
            g = groups.setdefault(sk, [0, msg])
            g[0] += 1
    out.write('%d cases, %d violating\n' % (n, nviol))
    for (mech, known, sk), (c, msg) in sorted(groups.items(), key=lambda kv: -kv[1][0]):
        out.write('%4d  %-28s known=%-22s %s\n      %s\n' % (c, mech, known, sk, msg[:400]))


if __name__ == '__main__':
    main()
