#!/bin/bash
# Runs the repository's pinned test suite (guard off: the harness has no hooks in /repo) and
# prints passed/failed counts; exits 0 iff all 509 baseline tests pass.
cd "${RTVERIF_REPO:-/repo}" || exit 2
out=$(/venv/bin/python -m pytest -q -p no:cacheprovider --timeout=900 --continue-on-collection-errors tests/python 2>&1 | tail -3)
echo "$out"
echo "$out" | grep -q "509 passed" && ! echo "$out" | grep -q failed
