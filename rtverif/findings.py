"""Mechanism-keyed classifiers that attribute a violation to an entry of known_findings.json.

A violation is attributed only if the *syntactic precondition* of the known defect holds on the
(shrunk) case; everything else is reported as new.  Nothing here is ever written at run time.
"""
from rtverif import lang


def c03_attribution(f, data, n, i, observed, rel=0.0):
    """D-past-over-future: stateful past operator above an operand with look-ahead; the pastified
    operand delivers warm-up garbage for its first steps.  Attributed only if the precondition
    holds AND the monitor returned exactly what the (warm-up ignoring) construction predicts."""
    from rtverif import pastmodel, ref_discrete as ref
    if not pastmodel.past_over_future(f):
        return None
    try:
        pred = ref.evaluate(pastmodel.pastified(f), data, n)[i]
    except Exception:
        return None
    if pred != pred or ref.same(observed, pred, rel):
        # (a NaN-tainted prediction leaves the defect's outcome undetermined: min/max with NaN)
        return 'D-past-over-future'
    return None
