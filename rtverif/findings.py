"""Mechanism-keyed classifiers that attribute a violation to an entry of known_findings.json.

A violation is attributed only if the *syntactic precondition* of the known defect holds on the
(shrunk) case; everything else is reported as new.  Nothing here is ever written at run time.
"""
from rtverif import lang


def normalise_signals(sig):
    """Restrict every signal to the common domain [start, inf) and shift time so that start = 0."""
    from rtverif import ref_dense
    start = max(s[0][0] for s in sig.values())
    out = {}
    for k, s in sig.items():
        st = ref_dense.from_samples(s, start)
        out[k] = [(t - start, v) for t, v in st.pairs()]
    return out, start


def c04_attribution(f, sig, mech, out, detail, rel=0.0):
    """D-dense-origin: constants are emitted from absolute time 0 and bounded operators anchor at
    their operand's own first stamp, so on inputs that do not all start at time 0 the result may
    start before the common domain and bounded past operators may be wrong near the start.
    Attributed only if (precondition) the inputs are not already 'normalised' (all first stamps
    equal 0) AND (defect model) the real monitor is right on the normalised inputs."""
    from rtverif import drive, ref_dense, ref_discrete, lang
    firsts = set(s[0][0] for s in sig.values())
    if firsts == set([0]):
        return None
    if mech not in ('value', 'origin'):
        return None
    if mech == 'value' and not any(g[0] == 'const' for g in lang.walk(f)) and not lang.has_stateful(f):
        # the defect is about constants (emitted from time 0) and temporal operators (anchored at their operand's
        # own first stamp instead of the start of the common domain): a wrong *value* on a formula with neither is
        # outside its precondition (the early start of the result - mechanism 'origin' - shows on any formula)
        return None
    nsig, start = normalise_signals(sig)
    names = sorted(nsig)
    try:
        exp = ref_dense.evaluate(f, nsig)
        res = drive.Mon('ct', {'text': lang.to_text(f), 'vars': names}).evaluate(*drive.ct_args(nsig, names))
    except Exception:
        return None
    end = min(s[-1][0] for s in nsig.values())
    same = lambda a, b: ref_discrete.same(a, b, rel)
    if res and ref_dense.compare(exp, res, 0, end, same) is None and res[0][0] == 0:
        return 'D-dense-origin'
    return None


def c05_attribution(f, sig, sched, mech, detail, pastify=False):
    """Only the pastifier's open finding (C03 D-past-over-future) is known for the dense online
    monitor: precondition = the spec was pastified and a stateful past operator sits above an
    operand with look-ahead; only value disagreements are attributed (never exceptions/order)."""
    from rtverif import pastmodel
    if pastify and mech == 'value' and pastmodel.past_over_future(f):
        return 'D-past-over-future'
    if mech == 'value':
        return c05_origin(f, sig, sched, pastify)
    return None


def c05_origin(f, sig, sched, pastify=False):
    """D-dense-origin, online flavour: bounded past operators open their initial empty-window piece
    only when the first stamp is exactly 0.  Attributed if the signals start later than 0 AND the
    same schedule on the signals shifted to start at 0 agrees with the reference everywhere."""
    from rtverif import ref_dense, ref_discrete, lang
    from rtverif.props import c05
    firsts = set(s[0][0] for s in sig.values())
    if firsts == set([0]):
        return None
    if not any(g[0] in ('once', 'historically', 'since') and g[1] is not None for g in lang.walk(f)):
        return None
    if len(firsts) != 1:
        # unequal first stamps: the chunking does not survive the restriction to the common domain, so the
        # defect model cannot be run; attributed by precondition only (class kept small by the generator)
        return 'D-dense-origin'
    nsig, start = normalise_signals(sig)
    names = sorted(nsig)
    h = lang.horizon(f) if pastify else 0
    try:
        exp = ref_dense.evaluate(f, nsig)
        outs = c05.run_schedule(lang.to_text(f), names, nsig, sched, pastify)
    except Exception:
        return None
    cat = [[x[0] - float(h), x[1]] for o in outs for x in o if x[0] == x[0] and abs(x[0]) != ref_discrete.INF]
    if not cat:
        return None
    lo, hi = max(ref_dense.Q(cat[0][0]), ref_dense.Q(0)), ref_dense.Q(cat[-1][0])
    if hi < lo:
        return None
    if ref_dense.compare(exp, cat, lo, hi, ref_discrete.same) is None:
        return 'D-dense-origin'
    return None
