"""Reference dense-time robustness semantics on right-continuous step functions.

A signal ``[(t0,v0),..,(tn,vn)]`` denotes the function with value v_i on [t_i, t_{i+1}) and v_n on
[t_n, inf) (finitary interpretation, last value held).  The common domain starts at the largest
first stamp.  Times are exact (Fraction); every operator is evaluated *pointwise from its
definition* at every candidate break-point:

  once[a,b] f (t)   = sup f over [t-b, t-a] ∩ [start, inf)     (empty -> -inf; historically dual)
  ev[a,b]   f (t)   = sup f over [t+a, t+b]                      (always dual)
  p since q (t)     = sup_{t' in [start,t]}  min(q(t'), inf_{[t',t]} p)      (non-strict, closed)
  p until q (t)     = sup_{t' >= t}          min(q(t'), inf_{[t,t']} p)
  bounded since/until: the same with t' restricted to [t-b,t-a] ∩ [start,inf) / [t+a,t+b].

NaN is a taint exactly as in ref_discrete.
"""
from fractions import Fraction as Fr
import bisect
import math

from rtverif.ref_discrete import tmin, tmax, tmin_l, tmax_l, pred_value, Undefined, _arith, INF


def Q(x):
    return x if isinstance(x, Fr) else Fr(x)


class Step(object):
    """Right-continuous step function on [ts[0], inf)."""
    __slots__ = ('ts', 'vs')

    def __init__(self, ts, vs):
        self.ts, self.vs = ts, vs

    def at(self, t):
        i = bisect.bisect_right(self.ts, t) - 1
        if i < 0:
            raise ValueError('before domain')
        return self.vs[i]

    def idx(self, t):
        return bisect.bisect_right(self.ts, t) - 1

    def compact(self):
        ts, vs = [self.ts[0]], [self.vs[0]]
        for t, v in zip(self.ts[1:], self.vs[1:]):
            if repr(v) != repr(vs[-1]):
                ts.append(t)
                vs.append(v)
        return Step(ts, vs)

    def pairs(self):
        return list(zip(self.ts, self.vs))


def from_samples(samples, start):
    """Input sample list -> Step restricted to [start, inf)."""
    ts = [Q(s[0]) for s in samples]
    vs = [float(s[1]) for s in samples]
    if any(b <= a for a, b in zip(ts, ts[1:])):
        raise ValueError('time-stamps must increase')
    i = bisect.bisect_right(ts, start) - 1
    if i < 0:
        raise ValueError('start before signal')
    return Step([start] + ts[i + 1:], [vs[i]] + vs[i + 1:])


def sample_at(f, grid):
    return [f.at(t) for t in grid]


def from_grid(grid, vals):
    return Step(list(grid), list(vals)).compact()


def pointwise(fn, *fs):
    grid = sorted(set(t for f in fs for t in f.ts))
    return from_grid(grid, [fn(*[f.at(t) for f in fs]) for t in grid])


def window_sup(f, lo, hi, sup=True):
    """sup (or inf) of f over the closed window [lo, hi] (lo >= f.ts[0], lo <= hi)."""
    i, j = f.idx(lo), f.idx(hi)
    vals = f.vs[i:j + 1]
    return tmax_l(vals) if sup else tmin_l(vals)


def evaluate(f, signals, pred_hook=None):
    """signals: {var: [(t, v), ...]} -> Step on [start, inf)."""
    start = max(Q(s[0][0]) for s in signals.values()) if signals else Fr(0)
    env = dict((k, from_samples(s, start)) for k, s in signals.items())
    return _ev(f, env, start, pred_hook, {})


TEMPORAL = ('once', 'historically', 'since', 'eventually', 'always', 'until', 'unless')


def _ev(f, env, start, hook, memo):
    if f in memo:
        return memo[f]
    r = _ev1(f, env, start, hook, memo)
    if f[0] in TEMPORAL and any(v != v for k in f[2:] for v in memo[k].vs):
        # conservative taint (see ref_discrete._ev): a NaN anywhere in an operand makes the whole temporal
        # result don't-care
        r = Step([start], [float('nan')])
    memo[f] = r
    return r


def _ev1(f, env, start, hook, memo):
    o = f[0]
    if o == 'var':
        return env[f[2]]
    if o == 'const':
        return Step([start], [float(f[2])])
    ks = [_ev(k, env, start, hook, memo) for k in f[2:]]
    iv = f[1]
    if o == 'neg' or o == 'not':
        return pointwise(lambda a: -a, ks[0])
    if o == 'abs':
        return pointwise(abs, ks[0])
    if o == 'sqrt':
        return pointwise(lambda a: _arith(math.sqrt, a) if a == a else a, ks[0])
    if o == 'exp':
        return pointwise(lambda a: _arith(math.exp, a) if a == a else a, ks[0])
    if o == 'ln':
        return pointwise(lambda a: _arith(math.log, a) if a == a else a, ks[0])
    if o == 'add':
        return pointwise(lambda a, b: a + b, *ks)
    if o == 'sub':
        return pointwise(lambda a, b: a - b, *ks)
    if o == 'mul':
        return pointwise(lambda a, b: a * b, *ks)
    if o == 'div':
        return pointwise(lambda a, b: _arith(lambda x, y: x / y, a, b), *ks)
    if o == 'pow':
        return pointwise(lambda a, b: _arith(math.pow, a, b) if (a == a and b == b) else float('nan'), *ks)
    if o == 'log':
        return pointwise(lambda a, b: _arith(math.log, a, b) if (a == a and b == b) else float('nan'), *ks)
    if o in ('leq', 'lt', 'geq', 'gt', 'eq', 'neq'):
        dflt = pointwise(lambda a, b: pred_value(o, a, b), *ks)
        if hook is not None:
            return hook(f, ks[0], ks[1], dflt)
        return dflt
    if o == 'and':
        return pointwise(tmin, *ks)
    if o == 'or':
        return pointwise(tmax, *ks)
    if o == 'implies':
        return pointwise(lambda a, b: tmax(-a, b), *ks)
    if o == 'iff':
        return pointwise(lambda a, b: -abs(a - b), *ks)
    if o == 'xor':
        return pointwise(lambda a, b: abs(a - b), *ks)
    p = ks[0]
    if o in ('once', 'historically'):
        sup = (o == 'once')
        if iv is None:
            acc, out = (-INF if sup else INF), []
            for v in p.vs:
                acc = tmax(acc, v) if sup else tmin(acc, v)
                out.append(acc)
            return Step(list(p.ts), out).compact()
        a, b = Q(iv[0]), Q(iv[1])
        cand = sorted(set([start] + [t + a for t in p.ts] + [t + b for t in p.ts]))
        cand = [c for c in cand if c >= start]
        vals = []
        for c in cand:
            if c - a < start:
                vals.append(-INF if sup else INF)
            else:
                vals.append(window_sup(p, max(start, c - b), c - a, sup))
        return from_grid(cand, vals)
    if o in ('eventually', 'always'):
        sup = (o == 'eventually')
        if iv is None:
            acc, out = (-INF if sup else INF), []
            for v in reversed(p.vs):
                acc = tmax(acc, v) if sup else tmin(acc, v)
                out.append(acc)
            out.reverse()
            return Step(list(p.ts), out).compact()
        a, b = Q(iv[0]), Q(iv[1])
        cand = sorted(set([start] + [t - a for t in p.ts] + [t - b for t in p.ts]))
        cand = [c for c in cand if c >= start]
        return from_grid(cand, [window_sup(p, c + a, c + b, sup) for c in cand])
    q = ks[1]
    if o in ('since', 'until', 'unless'):
        if o == 'unless':
            a, b = iv
            alw = _ev(('always', (0, b), f[2]), env, start, hook, memo)
            unt = _ev(('until', iv, f[2], f[3]), env, start, hook, memo)
            return pointwise(tmax, alw, unt)
        grid = sorted(set(p.ts) | set(q.ts))
        pv, qv = sample_at(p, grid), sample_at(q, grid)
        n = len(grid)
        if iv is None:
            out = [None] * n
            if o == 'since':
                acc = -INF
                for k in range(n):
                    acc = tmin(pv[k], tmax(qv[k], acc))
                    out[k] = acc
            else:
                acc = -INF
                for k in reversed(range(n)):
                    acc = tmin(pv[k], tmax(qv[k], acc))
                    out[k] = acc
            return from_grid(grid, out)
        a, b = Q(iv[0]), Q(iv[1])
        J = Step(grid, list(range(n)))        # piece index as a function of time
        if o == 'since':
            cand = sorted(set([start] + grid + [t + a for t in grid] + [t + b for t in grid]))
        else:
            cand = sorted(set([start] + grid + [t - a for t in grid] + [t - b for t in grid]))
        cand = [c for c in cand if c >= start]
        vals = []
        for c in cand:
            K = J.at(c)
            if o == 'since':
                if c - a < start:
                    vals.append(-INF)
                    continue
                k0, k1 = J.at(max(start, c - b)), J.at(c - a)
                best = -INF
                for k in range(k0, k1 + 1):
                    best = tmax(best, tmin(qv[k], tmin_l(pv[k:K + 1])))
            else:
                k0, k1 = J.at(c + a), J.at(c + b)
                best = -INF
                for k in range(k0, k1 + 1):
                    best = tmax(best, tmin(qv[k], tmin_l(pv[K:k + 1])))
            vals.append(best)
        return from_grid(cand, vals)
    raise ValueError('operator %r has no dense-time semantics' % (o,))


# ---------------------------------------------------------------------------------------
# comparison with an rtamt sample list, as functions

def out_value(samples, t):
    """Value at time t of an rtamt output list read as a right-continuous step function
    (later sample wins at equal stamps); None before the first sample."""
    val = None
    for s in samples:
        if s[0] != s[0] or s[0] == INF:
            break
        if s[0] == -INF or Q(s[0]) <= t:
            val = s[1]
        else:
            break
    return val


def probe_times(ref, samples, lo, hi):
    pts = set([lo, hi])
    for t in ref.ts:
        if lo <= t <= hi:
            pts.add(t)
    for s in samples:
        if s[0] == s[0] and abs(s[0]) != INF:
            t = Q(s[0])
            if lo <= t <= hi:
                pts.add(t)
    pts = sorted(pts)
    out = []
    for a, b in zip(pts, pts[1:]):
        out.append(a)
        out.append((a + b) / 2)
    out.append(pts[-1])
    return out


def compare(ref, samples, lo, hi, same):
    """First probe time in [lo, hi] where the output differs from ref, as (t, observed, expected)."""
    for t in probe_times(ref, samples, lo, hi):
        e = ref.at(t)
        if e != e:
            continue
        o = out_value(samples, t)
        if o is None or not same(o, e):
            return (t, o, e)
    return None
