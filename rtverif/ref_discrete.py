"""Reference discrete-time robustness semantics (README definition, suite-pinned conventions).

Written for obviousness: every temporal operator is the naive loop over its window.
NaN is used as a *taint*: it arises from inf-inf / 0*inf exactly as in IEEE arithmetic and is
propagated through min/max as well (Python's own min/max are order-dependent on NaN, so a
correct implementation is not determined there).  Tainted positions are "don't care".
"""
import math

INF = float('inf')


def isnan(v):
    return v != v


def tmin(*vs):
    m = INF
    for v in vs:
        if v != v:
            return v
        if v < m:
            m = v
    return m


def tmax(*vs):
    m = -INF
    for v in vs:
        if v != v:
            return v
        if v > m:
            m = v
    return m


def tmin_l(vs):
    return tmin(*vs) if vs else INF


def tmax_l(vs):
    return tmax(*vs) if vs else -INF


class Undefined(Exception):
    """The formula has no value on this data (division by zero, domain error, overflow)."""


def _arith(fn, *args):
    try:
        return fn(*args)
    except (ZeroDivisionError, ValueError, OverflowError) as e:
        raise Undefined(str(e))


def _pow(a, b):
    return math.pow(a, b)


def _log(a, b):
    return math.log(a, b)


def pred_value(o, l, r):
    if o in ('leq', 'lt'):
        return r - l
    if o in ('geq', 'gt'):
        return l - r
    if o == 'eq':
        return -abs(l - r)
    return abs(l - r)


def evaluate(f, data, n, pred_hook=None, memo=None):
    """Return the list rho(f, w, t) for t = 0..n-1.

    ``pred_hook(f, left_list, right_list, default_list)`` may override predicate values (IA
    semantics); ``memo`` may be a dict to share sub-results between calls.
    """
    if memo is None:
        memo = {}
    return _ev(f, data, n, pred_hook, memo)


PAST_SPREAD = ('once', 'historically', 'since', 'precedes')
FUTURE_SPREAD = ('eventually', 'always', 'until', 'unless')


def _ev(f, data, n, hook, memo):
    if f in memo:
        return memo[f]
    out = _ev1(f, data, n, hook, memo)
    o = f[0]
    if o in PAST_SPREAD or o in FUTURE_SPREAD:
        # conservative taint: a correct implementation may fold a NaN operand sample that lies anywhere in
        # the operator's direction of view (e.g. a backward recursion for until) into position t, even if
        # the window formulation used here never reads it; such positions are don't-care as well
        ks = [memo[k] for k in f[2:]]
        bad = [any(k[i] != k[i] for k in ks) for i in range(n)]
        acc = False
        rng_ = range(n) if o in PAST_SPREAD else range(n - 1, -1, -1)
        out = list(out)
        for i in rng_:
            acc = acc or bad[i]
            if acc:
                out[i] = float('nan')
    memo[f] = out
    return out


def _ev1(f, data, n, hook, memo):
    o = f[0]
    if o == 'var':
        vals = data[f[2]]
        if len(vals) < n:
            raise ValueError('trace for %s too short' % f[2])
        return [float(v) for v in vals[:n]]
    if o == 'const':
        return [float(f[2])] * n
    ks = [_ev(k, data, n, hook, memo) for k in f[2:]]
    iv = f[1]
    R = range(n)
    if o == 'neg':
        return [-v for v in ks[0]]
    if o == 'abs':
        return [abs(v) for v in ks[0]]
    if o == 'sqrt':
        return [_arith(math.sqrt, v) if v == v else v for v in ks[0]]
    if o == 'exp':
        return [_arith(math.exp, v) if v == v else v for v in ks[0]]
    if o == 'ln':
        return [_arith(math.log, v) if v == v else v for v in ks[0]]
    if o == 'add':
        return [a + b for a, b in zip(*ks)]
    if o == 'sub':
        return [a - b for a, b in zip(*ks)]
    if o == 'mul':
        return [a * b for a, b in zip(*ks)]
    if o == 'div':
        return [_arith(lambda x, y: x / y, a, b) for a, b in zip(*ks)]
    if o == 'pow':
        return [_arith(_pow, a, b) if (a == a and b == b) else float('nan') for a, b in zip(*ks)]
    if o == 'log':
        return [_arith(_log, a, b) if (a == a and b == b) else float('nan') for a, b in zip(*ks)]
    if o in ('leq', 'lt', 'geq', 'gt', 'eq', 'neq'):
        dflt = [pred_value(o, a, b) for a, b in zip(*ks)]
        if hook is not None:
            return hook(f, ks[0], ks[1], dflt)
        return dflt
    if o == 'not':
        return [-v for v in ks[0]]
    if o == 'and':
        return [tmin(a, b) for a, b in zip(*ks)]
    if o == 'or':
        return [tmax(a, b) for a, b in zip(*ks)]
    if o == 'implies':
        return [tmax(-a, b) for a, b in zip(*ks)]
    if o == 'iff':
        return [-abs(a - b) for a, b in zip(*ks)]
    if o == 'xor':
        return [abs(a - b) for a, b in zip(*ks)]
    p = ks[0]
    if o == 'rise':
        return [p[0]] + [tmin(-p[t - 1], p[t]) for t in range(1, n)] if n else []
    if o == 'fall':
        return [-p[0]] + [tmin(p[t - 1], -p[t]) for t in range(1, n)] if n else []
    if o == 'prev':
        return [INF] + p[:-1] if n else []
    if o == 's_prev':
        return [-INF] + p[:-1] if n else []
    if o == 'next':
        return p[1:] + [INF] if n else []
    if o == 's_next':
        return p[1:] + [-INF] if n else []
    if o == 'once':
        if iv is None:
            return [tmax_l(p[0:t + 1]) for t in R]
        a, b = iv
        return [(-INF if t - a < 0 else tmax_l(p[max(0, t - b):t - a + 1])) for t in R]
    if o == 'historically':
        if iv is None:
            return [tmin_l(p[0:t + 1]) for t in R]
        a, b = iv
        return [(INF if t - a < 0 else tmin_l(p[max(0, t - b):t - a + 1])) for t in R]
    if o == 'eventually':
        if iv is None:
            return [tmax_l(p[t:]) for t in R]
        a, b = iv
        return [(-INF if t + a >= n else tmax_l(p[t + a:min(t + b, n - 1) + 1])) for t in R]
    if o == 'always':
        if iv is None:
            return [tmin_l(p[t:]) for t in R]
        a, b = iv
        return [(INF if t + a >= n else tmin_l(p[t + a:min(t + b, n - 1) + 1])) for t in R]
    q = ks[1]
    if o == 'since':
        out = []
        for t in R:
            lo, hi = (0, t) if iv is None else (max(0, t - iv[1]), t - iv[0])
            best = -INF
            for t1 in range(lo, hi + 1):
                best = tmax(best, tmin(q[t1], tmin_l(p[t1 + 1:t + 1])))
            out.append(best)
        return out
    if o == 'until':
        return _until(p, q, iv, n)
    if o == 'precedes':
        # the pastified form of until[a,b]: at step i it looks at steps i-b..i (missing: p=+inf, q=-inf)
        a, b = iv
        out = []
        for i in R:
            gp = lambda s: p[s] if s >= 0 else INF
            gq = lambda s: q[s] if s >= 0 else -INF
            best = -INF
            for j in range(a, b + 1):
                best = tmax(best, tmin(gq(i - b + j), tmin_l([gp(i - b + k) for k in range(0, j)])))
            out.append(best)
        return out
    if o == 'unless':
        a, b = iv
        alw = [(INF if t >= n else tmin_l(p[t:min(t + b, n - 1) + 1])) for t in R]
        unt = _until(p, q, iv, n)
        return [tmax(x, y) for x, y in zip(alw, unt)]
    raise ValueError('unknown operator %r' % (o,))


def _until(p, q, iv, n):
    out = []
    for t in range(n):
        lo, hi = (t, n - 1) if iv is None else (t + iv[0], min(t + iv[1], n - 1))
        best = -INF
        for t1 in range(lo, hi + 1):
            best = tmax(best, tmin(q[t1], tmin_l(p[t:t1])))
        out.append(best)
    return out


# ---------------------------------------------------------------------------------------
# second formulation (one-step recursions), used only by the self-test

def evaluate_rec(f, data, n):
    o = f[0]
    if o in ('var', 'const') or f[1] is not None or o not in ('once', 'historically', 'since', 'until',
                                                            'eventually', 'always'):
        if o in ('var', 'const'):
            return evaluate(f, data, n)
        ks = [evaluate_rec(k, data, n) for k in f[2:]]
        names = ['__k%d' % i for i in range(len(ks))]
        d = dict(zip(names, ks))
        g = (f[0], f[1]) + tuple(('var', None, nm) for nm in names)
        return evaluate(g, d, n)
    ks = [evaluate_rec(k, data, n) for k in f[2:]]
    p = ks[0]
    out = [None] * n
    if o == 'once':
        acc = -INF
        for t in range(n):
            acc = tmax(acc, p[t]); out[t] = acc
    elif o == 'historically':
        acc = INF
        for t in range(n):
            acc = tmin(acc, p[t]); out[t] = acc
    elif o == 'eventually':
        acc = -INF
        for t in reversed(range(n)):
            acc = tmax(acc, p[t]); out[t] = acc
    elif o == 'always':
        acc = INF
        for t in reversed(range(n)):
            acc = tmin(acc, p[t]); out[t] = acc
    elif o == 'since':
        q = ks[1]; acc = -INF
        for t in range(n):
            acc = tmax(q[t], tmin(p[t], acc)); out[t] = acc
    elif o == 'until':
        q = ks[1]; acc = -INF
        for t in reversed(range(n)):
            acc = tmax(q[t], tmin(p[t], acc)); out[t] = acc
    return out


def same(a, b, rel=0.0):
    """Equality of two robustness values; NaN on the reference side (b) is 'don't care'."""
    if b != b:
        return True
    if a != a:
        return False
    if a == b:
        return True
    if rel and a not in (INF, -INF) and b not in (INF, -INF):
        return abs(a - b) <= rel * max(1.0, abs(a), abs(b))
    return False
