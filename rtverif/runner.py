"""CLI + sharding + verdicts + evidence.  ``./check Cxx [--tier quick|thorough] [--seed N] [--replay F]``"""
import argparse
import hashlib
import importlib
import json
import os
import random
import subprocess
import sys
import time
import traceback

HERE = os.path.dirname(os.path.dirname(os.path.abspath(__file__)))   # the checkout (/verif)
if HERE not in sys.path:
    sys.path.insert(0, HERE)

OUTDIR = os.environ.get('RTVERIF_OUT') or HERE   # developer tools (mutation runs) send evidence/replays elsewhere
OUT = sys.stdout            # harness output; rtamt's own prints are sent to /dev/null
CHECK_VERSION = 1


def emit(s):
    OUT.write(s + '\n')
    OUT.flush()


def digest(obj):
    return hashlib.sha1(json.dumps(obj, sort_keys=True, default=str).encode()).hexdigest()[:16]


def jsonable(x):
    if isinstance(x, float):
        if x != x:
            return 'nan'
        if x in (float('inf'), -float('inf')):
            return 'inf' if x > 0 else '-inf'
        return x
    if isinstance(x, (list, tuple)):
        return [jsonable(v) for v in x]
    if isinstance(x, dict):
        return dict((str(k), jsonable(v)) for k, v in x.items())
    if isinstance(x, (int, str, bool)) or x is None:
        return x
    try:
        from fractions import Fraction
        if isinstance(x, Fraction):
            return float(x) if x.denominator != 1 else int(x)
    except Exception:
        pass
    return repr(x)


def unjson(x):
    if isinstance(x, str) and x in ('nan', 'inf', '-inf'):
        return float(x)
    if isinstance(x, list):
        return [unjson(v) for v in x]
    if isinstance(x, dict):
        return dict((k, unjson(v)) for k, v in x.items())
    return x


class Ctx(object):
    """What a property module reports into."""

    def __init__(self, pid, tier, seed, shard=0, nshards=1):
        self.pid = pid
        self.tier = tier
        self.seed = seed
        self.shard = shard
        self.nshards = nshards
        self.rng = random.Random('%s/%s/%d/%d' % (pid, tier, seed, shard))
        self.evaluations = 0
        self.nontrivial = set()
        self.samples = []
        self.stats = {}
        self.violations = {}      # key -> {'count', 'known_key', 'witnesses': [..]}
        self.skipped = {}
        self.t0 = time.time()
        self.deadline = None
        self.notes = []

    # ---- budget -------------------------------------------------------------------
    def scale(self, quick, thorough):
        """Number of cases for this shard."""
        if self.tier == 'quick':
            return quick
        return max(1, thorough // self.nshards)

    def out_of_time(self):
        return self.deadline is not None and time.time() > self.deadline

    # ---- reporting ----------------------------------------------------------------
    def count(self, key, n=1):
        self.stats[key] = self.stats.get(key, 0) + n

    def case(self, case, nontrivial):
        self.evaluations += 1
        if nontrivial:
            self.nontrivial.add(digest(case))
        if len(self.samples) < 3 or (nontrivial and len(self.samples) < 6 and self.rng.random() < 0.01):
            self.samples.append(jsonable(case))

    def skip(self, why):
        self.skipped[why] = self.skipped.get(why, 0) + 1

    def violation(self, mech, msg, witness, known=None):
        """mech: short mechanism label chosen by the property's classifier (groups violations);
        known: key of the known-findings entry this is attributed to, or None (= new)."""
        key = known or ('NEW:' + mech)
        v = self.violations.setdefault(key, {'count': 0, 'known_key': known, 'mech': mech, 'witnesses': []})
        v['count'] += 1
        if len(v['witnesses']) < 3:
            v['witnesses'].append({'msg': msg, 'case': jsonable(witness)})

    def result(self):
        from rtverif import drive
        return {
            'evaluations': self.evaluations,
            'nontrivial': sorted(self.nontrivial),
            'samples': self.samples[:6],
            'stats': self.stats,
            'violations': self.violations,
            'skipped': self.skipped,
            'recorder': drive.REC.summary(),
            'telemetry': telemetry_counts(),
            'wall_s': time.time() - self.t0,
            'notes': self.notes,
        }


# ---------------------------------------------------------------------------------------
# telemetry: which rtamt bodies actually ran (sys.monitoring, python >= 3.12)

_TELE = {}
_TOOL = 3


def _want(code):
    fn = code.co_filename
    if '/rtamt/' not in fn or '/antlr/' in fn:
        return False
    n = code.co_name
    if n.startswith('visit') and len(n) > 5 and n[5].isupper() and n not in ('visitChildren',):
        return ('/semantics/' in fn or '/pastifier/' in fn or '/explanation/' in fn)
    if n in ('update', 'reset', 'update_final', 'time_unit_transformer', 'update_sampling_violation_counter',
             'evaluate', 'pastify', 'explain'):
        return True
    if n.startswith('explain'):
        return True
    return False


def telemetry_start():
    mon = getattr(sys, 'monitoring', None)
    if mon is None or os.environ.get('RTVERIF_NO_TELEMETRY'):
        return
    try:
        mon.use_tool_id(_TOOL, 'rtverif')
    except ValueError:
        return

    def on_start(code, off):
        if not _want(code):
            return mon.DISABLE
        k = os.path.basename(os.path.dirname(code.co_filename)) + '/' + \
            os.path.basename(code.co_filename)[:-3] + ':' + code.co_qualname
        _TELE[k] = _TELE.get(k, 0) + 1

    mon.register_callback(_TOOL, mon.events.PY_START, on_start)
    mon.set_events(_TOOL, mon.events.PY_START)


def telemetry_counts():
    return dict(_TELE)


# ---------------------------------------------------------------------------------------

def load_findings():
    p = os.path.join(HERE, 'known_findings.json')
    if not os.path.exists(p):
        return []
    with open(p) as fh:
        return json.load(fh).get('findings', [])


def run_shard(pid, tier, seed, shard, nshards, replay=None):
    sys.stdout = open(os.devnull, 'w')
    from rtverif.props import base as _base
    _base.limit_resources()
    telemetry_start()
    ctx = Ctx(pid, tier, seed, shard, nshards)
    mod = importlib.import_module('rtverif.props.%s' % pid.lower())
    if replay is not None:
        with open(replay) as fh:
            w = unjson(json.load(fh))
        case = w.get('case', w)
        res = mod.PROP.check(ctx, case)
        emit('REPLAY property=%s file=%s' % (pid, replay))
        emit(json.dumps(jsonable({'case': case, 'violations': ctx.violations, 'detail': res}), indent=1)[:6000])
        return ctx.result()
    budget = {'quick': float(os.environ.get('RTVERIF_QUICK_S', '75')),
              'thorough': float(os.environ.get('RTVERIF_THOROUGH_S', '900'))}[tier]
    ctx.deadline = time.time() + budget
    mod.PROP.run(ctx)
    return ctx.result()


def merge(results):
    m = {'evaluations': 0, 'nontrivial': set(), 'samples': [], 'stats': {}, 'violations': {}, 'skipped': {},
         'recorder': {'api_calls': {}, 'api_raises': {}, 'events': 0, 'last_events': []}, 'telemetry': {},
         'notes': [], 'shards': len(results)}
    for r in results:
        m['evaluations'] += r['evaluations']
        m['nontrivial'].update(r['nontrivial'])
        if len(m['samples']) < 6:
            m['samples'] += r['samples'][:2]
        for k, v in r['stats'].items():
            if isinstance(v, (int, float)):
                m['stats'][k] = m['stats'].get(k, 0) + v
            else:
                m['stats'].setdefault(k, v)
        for k, v in r['skipped'].items():
            m['skipped'][k] = m['skipped'].get(k, 0) + v
        for k, v in r['violations'].items():
            t = m['violations'].setdefault(k, {'count': 0, 'known_key': v['known_key'], 'mech': v['mech'],
                                               'witnesses': []})
            t['count'] += v['count']
            if len(t['witnesses']) < 3:
                t['witnesses'] += v['witnesses'][:3 - len(t['witnesses'])]
        rc = r['recorder']
        for k in ('api_calls', 'api_raises'):
            for kk, vv in rc[k].items():
                m['recorder'][k][kk] = m['recorder'][k].get(kk, 0) + vv
        m['recorder']['events'] += rc['events']
        m['recorder']['last_events'] = rc['last_events']
        for k, v in r['telemetry'].items():
            m['telemetry'][k] = m['telemetry'].get(k, 0) + v
        m['notes'] += r.get('notes', [])
    return m


def main(argv=None):
    ap = argparse.ArgumentParser()
    ap.add_argument('prop')
    ap.add_argument('--tier', default=os.environ.get('VERIF_TIER', 'quick'))
    ap.add_argument('--seed', type=int, default=int(os.environ.get('VERIF_SEED', '0') or 0))
    ap.add_argument('--replay')
    ap.add_argument('--shard', default=None)      # internal: k/n
    ap.add_argument('--out', default=None)        # internal
    ap.add_argument('--jobs', type=int, default=int(os.environ.get('RTVERIF_JOBS', '16')))
    a = ap.parse_args(argv)
    pid = a.prop.upper()
    tier = a.tier if a.tier in ('quick', 'thorough') else 'quick'
    t0 = time.time()

    if a.shard is not None:
        k, n = [int(x) for x in a.shard.split('/')]
        try:
            r = run_shard(pid, tier, a.seed, k, n)
        except BaseException:
            r = {'crash': traceback.format_exc()}
        with open(a.out, 'w') as fh:
            json.dump(jsonable(r), fh)
        return 0

    if a.replay:
        run_shard(pid, tier, a.seed, 0, 1, replay=a.replay)
        return 0

    nshards = 1 if tier == 'quick' else a.jobs
    crashed, timeouts = [], 0
    if nshards == 1:
        try:
            results = [run_shard(pid, tier, a.seed, 0, 1)]
        except BaseException:
            crashed.append(traceback.format_exc())
            results = []
    else:
        work = os.path.join(OUTDIR, '.work')
        os.makedirs(work, exist_ok=True)
        procs = []
        for k in range(nshards):
            outp = os.path.join(work, '%s.%d.%d.json' % (pid, os.getpid(), k))
            cmd = [sys.executable, '-B', '-X', 'faulthandler', os.path.abspath(__file__), pid, '--tier', tier,
                   '--seed', str(a.seed), '--shard', '%d/%d' % (k, nshards), '--out', outp]
            procs.append((k, outp, subprocess.Popen(cmd, stdout=subprocess.DEVNULL, stderr=subprocess.PIPE)))
        limit = float(os.environ.get('RTVERIF_THOROUGH_S', '900')) * 2 + 300
        results = []
        for k, outp, p in procs:
            try:
                _, err = p.communicate(timeout=max(30, limit - (time.time() - t0)))
            except subprocess.TimeoutExpired:
                p.kill()
                p.communicate()
                timeouts += 1
                continue
            if os.path.exists(outp):
                with open(outp) as fh:
                    r = json.load(fh)
                os.remove(outp)
                if 'crash' in r:
                    crashed.append(r['crash'])
                else:
                    results.append(r)
            else:
                crashed.append('shard %d: no output; stderr: %s' % (k, (err or b'')[-2000:].decode('utf8', 'replace')))

    m = merge(results)
    return finish(pid, tier, a.seed, m, crashed, timeouts, nshards, time.time() - t0)


def finish(pid, tier, seed, m, crashed, timeouts, nshards, wall):
    mod = importlib.import_module('rtverif.props.%s' % pid.lower())
    prop = mod.PROP
    findings = [f for f in load_findings() if f['property'] == pid]
    open_keys = dict((f['key'], f) for f in findings if f.get('status') == 'open')
    new_viol, known_hits = [], {}
    os.makedirs(os.path.join(OUTDIR, 'replays', pid), exist_ok=True)
    for key, v in sorted(m['violations'].items()):
        kk = v.get('known_key')
        if kk and kk in open_keys:
            known_hits[kk] = known_hits.get(kk, 0) + v['count']
            w = v['witnesses'][0]
            emit('KNOWN-FINDING: property=%s %s: %s (%d cases, e.g. %s)' % (
                pid, kk, open_keys[kk].get('short', open_keys[kk].get('mechanism', ''))[:160], v['count'], w['msg'][:300]))
        else:
            for w in v['witnesses'][:1]:
                rp = os.path.join(OUTDIR, 'replays', pid, '%s.json' % digest(w))
                with open(rp, 'w') as fh:
                    json.dump({'property': pid, 'check_version': CHECK_VERSION, 'mechanism': v['mech'],
                               'attribution': kk, 'msg': w['msg'], 'case': w['case']}, fh, indent=1)
                emit('VIOLATION property=%s replay=%s' % (pid, rp))
                emit('  mechanism=%s count=%d %s' % (v['mech'], v['count'], w['msg'][:600]))
            new_viol.append(key)

    nontriv = len(m['nontrivial'])
    floor_eval, floor_nt = prop.floors.get(tier, (1, 2))
    inconclusive = []
    if crashed:
        inconclusive.append('%d shard(s) crashed in the harness' % len(crashed))
        for c in crashed[:2]:
            emit('HARNESS-CRASH: ' + c[-1500:])
    if timeouts * 4 > nshards:
        inconclusive.append('%d/%d shards timed out' % (timeouts, nshards))
    if m['evaluations'] < floor_eval or nontriv < floor_nt:
        inconclusive.append('too few cases reached the deciding monitor: evaluations=%d (floor %d), '
                            'non-trivial=%d (floor %d)' % (m['evaluations'], floor_eval, nontriv, floor_nt))
    for need in prop.must_reach:
        if not any(need in k and c > 0 for k, c in m['telemetry'].items()) and m['telemetry']:
            inconclusive.append('target code never entered: %s' % need)

    cov = {
        'evaluations': m['evaluations'],
        'distinct_nontrivial': nontriv,
        'rule': prop.rule + ((' Added workload classes: ' + prop.rule_added) if getattr(prop, 'rule_added', '') else '') +
                ('' if not getattr(prop, 'object_histories', True) else
                 ' In every check 15% of the monitor objects get a prehistory the properties declare harmless (online: '
                'a few updates with other values, possibly one failing part-way, then reset(); offline: an evaluate() on other data '
                 'first, possibly failing or under half the sampling period which is then set back; a re-parse A,B,A; a '
                 'neighbour object with a confusable configuration driven first; an interloper object between two calls) and 5% '
                 'get their data as fields of one object-typed input variable.'),
        'samples': m['samples'][:6] or [{'note': 'no case generated'}],
        'exhaustive': False,
        'stats': m['stats'],
        'skipped': m['skipped'],
        'known_finding_hits': known_hits,
        'new_violation_mechanisms': new_viol,
        'api_events_observed': m['recorder'],
        'rtamt_functions_entered': dict(sorted(m['telemetry'].items(), key=lambda kv: -kv[1])[:60]),
        'shards': nshards, 'shard_timeouts': timeouts, 'inconclusive': inconclusive,
        'notes': m['notes'][:10],
    }
    ev = {'property_id': pid, 'tier': tier, 'seed': seed, 'level': 'exploration', 'coverage': cov,
          'assumptions': prop.assumptions, 'wall_s': round(wall, 2), 'violations': len(new_viol)}
    os.makedirs(os.path.join(OUTDIR, 'evidence'), exist_ok=True)
    with open(os.path.join(OUTDIR, 'evidence', '%s.json' % pid), 'w') as fh:
        json.dump(jsonable(ev), fh, indent=1, sort_keys=True)

    emit('SUMMARY property=%s tier=%s seed=%d evaluations=%d nontrivial=%d known=%s new=%d wall=%.1fs' % (
        pid, tier, seed, m['evaluations'], nontriv, known_hits, len(new_viol), wall))
    if new_viol:
        return 1
    if inconclusive:
        emit('INCONCLUSIVE property=%s %s' % (pid, '; '.join(inconclusive)))
        return 2
    return 0


if __name__ == '__main__':
    sys.exit(main())
