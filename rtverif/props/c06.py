"""C06 — interface-aware semantics differ from standard only at insensitive predicates."""
from fractions import Fraction as Fr
from rtverif import monitors, lang, drive, ref_bool, findings
from rtverif import ref_discrete as refd
from rtverif import ref_dense
from rtverif.props.base import Prop, Verdict, fmt
from rtverif.props.c01 import rel_for
from rtverif.props.c04 import sig_text, sig_from_json

SEMS = ('standard', 'output_robustness', 'input_robustness', 'output_vacuity', 'input_vacuity')
KINDS = ('dt_off', 'dt_on', 'ct_off', 'ct_on', 'dt_on_pastified', 'ct_on_pastified')
INF = float('inf')


def insensitive(f, sem, io):
    """Does predicate ``f`` get overridden under semantics ``sem`` with io assignment ``io``?"""
    vs = lang.variables(f)
    typ = lambda v: io.get(v, 'output')
    if sem in ('output_robustness', 'output_vacuity'):
        return not any(typ(v) == 'output' for v in vs)
    if sem in ('input_robustness', 'input_vacuity'):
        return not any(typ(v) == 'input' for v in vs)
    return False


def hook_discrete(sem, io):
    def hook(f, left, right, dflt):
        if not insensitive(f, sem, io):
            return dflt
        # where the numeric robustness itself is NaN (inf-inf between operands) the truth value may be
        # computed either from the operands or from their difference: don't-care
        if sem.endswith('vacuity'):
            return [0.0 if d == d else float('nan') for d in dflt]
        fn = ref_bool.HOLDS[f[0]]
        return [(INF if fn(a, b) else -INF) if d == d else float('nan') for a, b, d in zip(left, right, dflt)]
    return hook


def hook_dense(sem, io):
    def hook(f, left, right, dflt):
        if not insensitive(f, sem, io):
            return dflt
        if sem.endswith('vacuity'):
            return ref_dense.pointwise(lambda a, b, d: 0.0 if d == d else float('nan'), left, right, dflt)
        fn = ref_bool.HOLDS[f[0]]
        return ref_dense.pointwise(lambda a, b, d: (INF if fn(a, b) else -INF) if d == d else float('nan'),
                                   left, right, dflt)
    return hook


class C06(Prop):
    id = 'C06'
    rule_added = "Enumerated in every run: for every node class of the syntax tree (arithmetic, Boolean and temporal - the grammar is untyped) a predicate that reaches its variable only through a node of that class, under a random interface-aware semantics, io assignment and monitor kind. 20% with sqrt/exp/ln/pow/log. 20% as modular specifications (named Boolean or arithmetic sub-formulas); 8% shared-term template; 5% equality-mirror template; dense online under random chunkings. 25% of the discrete cases with prev/next of a term inside predicate arithmetic; shared-term template also with '/'."
    rule = ('random formulas (predicates over inputs only, outputs only, mixed, constants only; nested under every '
            'operator) x the 5 semantics x a random input/output assignment of the variables (set before parse(); '
            'untyped variables default to output) x the 4 monitor kinds: the result is compared with the reference '
            'semantics in which exactly the insensitive predicates are overridden (+-inf by Boolean truth for the '
            'robustness semantics, 0 for the vacuity semantics); with STANDARD two different assignments must give the '
            'same result. distinct = hash(case); non-trivial = non-standard semantics with >=1 overridden and >=1 '
            'untouched predicate.')
    assumptions = ['io types are assigned with set_var_io_type before parse()',
                   'a predicate "mentions" the variables occurring anywhere below it']
    floors = {'quick': (200, 40), 'thorough': (4000, 800)}
    must_reach = []
    quick_cases = 2000
    thorough_cases = 1500000
    shrink_data = False

    def shrinkable(self, case):
        return not case.get('modular')

    def gen_shared_term(self, rng):
        """A named arithmetic sub-formula shared between a predicate that also mentions a variable of the other
        io class and a predicate that mentions nothing else: `e = abs(x); out = ((e - y >= 1) and (e <= 2))`."""
        kind = rng.choice(KINDS[:4])
        a, b = rng.sample(['x', 'y', 'z'], 2)
        term = rng.choice([lang.N('abs', lang.V(a)), lang.N('add', lang.V(a), lang.C(1.0)), lang.N('neg', lang.V(a)),
                           lang.N('mul', lang.V(a), lang.C(2.0)), lang.N('sub', lang.C(3.0), lang.V(a))])
        e = lang.V('sa')
        mop = rng.choice(['sub', 'add', 'mul', 'sub', 'div', 'div'])
        if mop == 'div':
            # (the divisor is kept away from 0: |b| + 1)
            mixed = lang.N('div', e, lang.N('add', lang.N('abs', lang.V(b)), lang.C(1.0)))
        else:
            mixed = lang.N(mop, *rng.sample([e, lang.V(b)], 2))
        p1 = lang.N(rng.choice(['geq', 'leq', 'gt', 'lt']), mixed, lang.C(rng.choice([0.0, 1.0, 2.0])))
        p2 = lang.N(rng.choice(['geq', 'leq', 'gt', 'lt']), e, lang.C(rng.choice([0.0, 1.0, 2.0])))
        if rng.random() < 0.5:
            wrap = rng.choice(['once', 'historically'])
            p2 = lang.N(wrap, p2) if rng.random() < 0.5 else lang.N(wrap, p2, ivl=(0, rng.choice([1, 2])))
        top = lang.N(rng.choice(['and', 'or', 'implies']), *rng.sample([p1, p2], 2))
        f = lang.inline(top, [('sa', term)])
        io = {a: rng.choice(['input', 'output']), b: rng.choice(['input', 'output'])}
        case = {'formula': f, 'kind': kind, 'sem': rng.choice(SEMS[1:]), 'io': io,
                'modular': {'top': lang.to_jsonable(top), 'defs': [['sa', lang.to_jsonable(term)]], 'consts': [],
                            'style': rng.choice(['one-text', 'subspecs'])}}
        names = sorted([a, b])
        if kind.startswith('dt'):
            case['data'] = lang.gen_trace(rng, names, rng.randint(2, 10))
        else:
            base = lang.gen_signal(rng, n=rng.randint(2, 7), start=Fr(0))
            case['signals'] = sig_text(dict((k, [(t, rng.choice(lang.SMALL)) for (t, _) in base]) for k in names))
        return case

    def gen_eq_mirror(self, rng, kinds=('ct_on', 'ct_on', 'ct_off', 'dt_off', 'dt_on')):
        """Dense-time online, an overridden equality predicate on a signal that takes values at equal distances on
        both sides of the constant within one batch (its robustness -|x-c| repeats while the sample is new)."""
        a, b = rng.sample(['x', 'y', 'z'], 2)
        c0 = rng.choice([0.0, 1.0])
        p1 = lang.N(rng.choice(['eq', 'neq']), lang.V(a), lang.C(c0))
        p2 = lang.N(rng.choice(['geq', 'leq']), lang.V(b), lang.C(rng.choice([0.0, 1.0])))
        r = rng.random()
        if r < 0.35:
            f = lang.N(rng.choice(['and', 'or', 'implies']), *rng.sample([p1, p2], 2))
        elif r < 0.7:
            f = lang.N(rng.choice(['once', 'historically']), lang.N(rng.choice(['and', 'or', 'implies']), p1, p2),
                       ivl=rng.choice([None, (0, 2), (1, 3)]))
        else:
            f = lang.N('since', p2, p1, ivl=rng.choice([None, (0, 3)]))
        sem = rng.choice(SEMS[1:])
        io = {a: 'input' if sem.startswith('output') else 'output', b: 'output' if sem.startswith('output') else 'input'}
        n = rng.randint(4, 8)
        vals = [c0 + d for d in (-2.0, -1.0, 0.0, 1.0, 2.0)]
        sig = dict((k, [(Fr(i), rng.choice(vals)) for i in range(n)]) for k in (a, b))
        kind = rng.choice(list(kinds))
        if kind.startswith('dt'):
            # (the same template for the discrete-time monitors: the samples of the integer grid as a trace)
            return {'formula': f, 'kind': kind, 'sem': sem, 'io': io,
                    'data': dict((k, [val for _, val in s_]) for k, s_ in sig.items())}
        return {'formula': f, 'kind': kind, 'sem': sem, 'io': io, 'signals': sig_text(sig),
                'cuts': sorted(rng.sample(range(1, n), rng.randint(0, 2)))}

    def gen(self, rng, ctx):
        r0 = rng.random()
        if r0 < 0.07:
            return self.gen_eq_mirror(rng)
        if r0 < 0.13:
            return self.gen_shared_term(rng)
        kind = rng.choice(KINDS)
        nv = rng.choice([1, 2, 3, 3])
        if kind.startswith('dt'):
            c = lang.GenCfg(vars=list(lang.VAR_POOL[:nv]), max_depth=rng.choice([1, 2, 3, 4]), unless=True,
                            max_bound=rng.choice([2, 4]), const_pred=0.15)
        else:
            c = lang.dense_cfg(rng, const_pred=0.15)
            c.vars = list(lang.VAR_POOL[:nv])
        if kind.endswith('_on'):
            c.future = False
        if rng.random() < 0.15:
            c.untyped = 0.2
        if rng.random() < 0.2:
            c.transcend = True             # sqrt, exp, ln, pow, log nodes pass the variables below them on as well
        if kind.startswith('dt') and rng.random() < 0.25:
            c.term_temporal = 0.3          # rate-of-change predicates: abs(x - (prev x)) <= 1
        modular = rng.random() < 0.2
        if modular:
            c.dup = 0.4
        f = lang.gen_formula(rng, c)
        if kind.endswith('pastified'):
            from rtverif import pastmodel
            c.unbounded_future = False
            c.prevnext = False
            c.max_depth = min(c.max_depth, 3)
            if kind.startswith('ct'):
                c.timed_since_until = False
            for _ in range(200):
                f = lang.gen_formula(rng, c)
                if 0 < lang.horizon(f) <= 6 and not (kind.startswith('ct') and pastmodel.past_over_future(f)) and not (
                        kind.startswith('ct') and lang.ops_of(f) & set(['until', 'unless'])):
                    break
            else:
                f = lang.N('eventually', lang.N('geq', lang.V(c.vars[0]), lang.C(1.0)), ivl=(0, c.bound_step * 2))
        names = lang.variables(f) or [c.vars[0]]
        io = {}
        for vname in names:
            r = rng.random()
            if r < 0.45:
                io[vname] = 'input'
            elif r < 0.85:
                io[vname] = 'output'
        case = {'formula': f, 'kind': kind, 'sem': rng.choice(SEMS), 'io': io}
        if modular and lang.depth(f) >= 2:
            # the same formula as a modular specification: named sub-formulas (Boolean or arithmetic), every
            # occurrence replaced by the name; the predicates "mention" what their names stand for
            top, defs = lang.decompose(rng, f, rng.randint(1, 3))
            if defs:
                case['modular'] = {'top': lang.to_jsonable(top), 'defs': [[nm, lang.to_jsonable(g)] for nm, g in defs],
                                   'consts': [], 'style': rng.choice(['one-text', 'subspecs'])}
        if kind.startswith('ct_on') and rng.random() < 0.6:
            case['cuts'] = sorted(rng.sample(range(1, 8), rng.randint(0, 3)))
        if kind.startswith('dt'):
            case['data'] = lang.gen_trace(rng, names, rng.randint(1, 14) + (lang.horizon(f) if kind.endswith('pastified')
                                                                          else 0))
        else:
            if kind in ('ct_on', 'ct_on_pastified'):
                base = lang.gen_signal(rng, n=rng.randint(2, 7), start=Fr(0))
                if kind == 'ct_on' and lang.depth(f) <= 3 and rng.random() < 0.04:
                    # hundreds of samples in one update (what a size-triggered code path would meet); the signals
                    # hold their values over stretches
                    base = lang.gen_signal(rng, n=rng.choice([257, 258, 300, 520]), start=Fr(0))
                    case['cuts'] = rng.choice([[], [], [1], [259]])
                    case['long'] = True
                # often a small symmetric integer alphabet: values on thresholds, equal distances on both sides
                vals = [-2.0, -1.0, 0.0, 1.0, 2.0] if rng.random() < 0.4 else lang.SMALL
                sig = dict((k, [(t, rng.choice(vals)) for (t, _) in base]) for k in names)
            else:
                sig = lang.gen_signals(rng, names)
            case['signals'] = sig_text(sig)
        return case

    def through_templates(self):
        """One predicate per node class of the syntax tree whose only way to a variable leads through a node of
        that class: `sqrt(abs(x) + 1) >= c`, `(2 - x) >= c`, `pow(abs(x) + 1, y / 4) >= c`, and - the grammar being
        untyped - Boolean and temporal nodes in term position: `(not x) >= c`, `(once[0,1] x) >= c`, `(x since y) >= c`."""
        N, V, C = lang.N, lang.V, lang.C
        x, y = V('x'), V('y')
        safe = N('add', N('abs', x), C(1.0))
        out = [('neg', N('neg', x)), ('abs', N('abs', x)), ('sqrt', N('sqrt', safe)), ('exp', N('exp', N('div', x, C(8.0)))),
               ('ln', N('ln', safe)), ('pow', N('pow', safe, C(2.0))), ('pow2', N('pow', safe, N('div', y, C(4.0)))),
               ('log', N('log', safe, C(2.0))), ('log2', N('log', C(8.0), N('add', N('abs', y), C(2.0))))]
        for o in ('add', 'sub', 'mul'):
            out += [(o + '-l', N(o, x, C(2.0))), (o + '-r', N(o, C(2.0), x)), (o + '-2', N(o, x, y))]
        out += [('div-l', N('div', x, C(2.0))), ('div-r', N('div', C(2.0), safe))]
        out += [('not', N('not', x))]
        for o in ('and', 'or', 'implies', 'iff', 'xor'):
            out += [(o + '-l', N(o, x, C(1.0))), (o + '-r', N(o, C(1.0), y))]
        for o in ('once', 'historically'):
            out += [(o, N(o, x)), (o + '-timed', N(o, x, ivl=(0, 1)))]
        for o in ('eventually', 'always'):
            out += [(o, N(o, x)), (o + '-timed', N(o, x, ivl=(0, 1)))]
        out += [('until', N('until', x, y))]
        out += [('since', N('since', x, y)), ('since-timed', N('since', x, y, ivl=(0, 2))),
                ('until-timed', N('until', x, y, ivl=(0, 2)))]
        for o in ('prev', 's_prev', 'next', 's_next', 'rise', 'fall'):
            out += [(o, N(o, x))]
        return out

    def extra(self, ctx):
        rng = ctx.rng
        temps = self.through_templates()
        reps = 3 if ctx.tier == 'quick' else max(3, 96 // ctx.nshards)
        done = 0
        for label, term in temps:
            for rep in range(reps):
                if ctx.out_of_time():
                    break
                ops = lang.ops_of(term)
                discrete_only = bool(ops & set(['prev', 's_prev', 'next', 's_next', 'rise', 'fall']))
                future = lang.has_future(term)
                kinds = ['dt_off'] + ([] if future else ['dt_on']) + ([] if discrete_only else ['ct_off']) + \
                        ([] if (discrete_only or future) else ['ct_on'])
                kind = rng.choice(kinds)
                pred = lang.N(rng.choice(['geq', 'leq', 'gt', 'lt', 'eq', 'neq']), term, lang.C(rng.choice([0.0, 1.0, 2.0])))
                other = lang.N(rng.choice(['geq', 'leq']), lang.V('z'), lang.C(rng.choice([0.0, 1.0])))
                if rep % 3 < 2:
                    f = pred              # the predicate alone: its value IS the output, nothing can absorb an override
                else:
                    f = lang.N(rng.choice(['and', 'or', 'implies']), *rng.sample([pred, other], 2))
                    if rng.random() < 0.3 and not future:
                        f = lang.N('once', f)
                names = lang.variables(f)
                io = dict((k, rng.choice(['input', 'output'])) for k in names)
                sem = rng.choice(SEMS[1:])
                if rep % 3 < 2:
                    # the two configurations in which the predicate must keep its numeric robustness because of the
                    # variables behind the node: every variable an input under an input-semantics / an output under
                    # an output-semantics (vacuity or robustness)
                    side = ('input', 'output')[rep % 3]
                    sem = rng.choice([side + '_robustness', side + '_vacuity'])
                    io = dict((k, side) for k in names)
                case = {'formula': f, 'kind': kind, 'sem': sem, 'io': io, 'through': label}
                if kind.startswith('dt'):
                    case['data'] = lang.gen_trace(rng, names, rng.randint(2, 10))
                else:
                    base = lang.gen_signal(rng, n=rng.randint(2, 7), start=Fr(0))
                    case['signals'] = sig_text(dict((k, [(t, rng.choice(lang.SMALL)) for (t, _) in base]) for k in names))
                    if kind == 'ct_on':
                        case['cuts'] = sorted(rng.sample(range(1, 8), rng.randint(0, 3)))
                self.check(ctx, case)
                done += 1
        ctx.count('class:variable-reached-through-one-node-class', done)
        # aliasing of variable lists: a named term `sa = T(x)` is one operand of a binary arithmetic node whose other
        # operand mentions y, and is used again in a predicate of its own; in the configuration in which x is
        # insensitive and y sensitive that second predicate must be overridden (it mentions x only)
        N, V, C = lang.N, lang.V, lang.C
        al = 0
        for o in ('add', 'sub', 'mul', 'div', 'pow', 'log'):
            for pos in (0, 1):
                for side in ('input', 'output'):
                    term = N('add', N('abs', V('x')), C(1.0))
                    other = N('add', N('abs', V('y')), C(2.0)) if o in ('div', 'log') else (N('div', V('y'), C(4.0)) if o == 'pow' else V('y'))
                    ops2 = (V('sa'), other) if pos == 0 else (other, V('sa'))
                    if o in ('pow', 'log') and pos == 1:
                        ops2 = (N('add', N('abs', V('y')), C(1.0)), N('div', V('sa'), C(4.0)) if o == 'pow' else N('add', V('sa'), C(1.0)))
                    p1 = N('geq', N(o, *ops2), C(1.0))
                    p2 = N(rng.choice(['geq', 'leq']), V('sa'), C(2.0))
                    top = N(rng.choice(['and', 'or']), p1, p2)
                    kind = rng.choice(KINDS[:4])
                    io = {'x': 'output' if side == 'input' else 'input', 'y': side}
                    case = {'formula': lang.inline(top, [('sa', term)]), 'kind': kind,
                            'sem': rng.choice([side + '_robustness', side + '_vacuity']), 'io': io,
                            'modular': {'top': lang.to_jsonable(top), 'defs': [['sa', lang.to_jsonable(term)]], 'consts': [],
                                        'style': rng.choice(['one-text', 'subspecs'])}}
                    if kind.startswith('dt'):
                        case['data'] = lang.gen_trace(rng, ['x', 'y'], rng.randint(2, 8))
                    else:
                        base = lang.gen_signal(rng, n=rng.randint(2, 6), start=Fr(0))
                        case['signals'] = sig_text(dict((k, [(t, rng.choice(lang.SMALL)) for (t, _) in base]) for k in ('x', 'y')))
                    self.check(ctx, case)
                    al += 1
        ctx.count('class:named-term-next-to-another-variable', al)

    def run_real(self, kind, text, names, sem, io, data=None, sig=None, modular=None, cuts=None):
        sd = {'text': text, 'vars': names, 'semantics': sem, 'io': io}
        if modular:
            from rtverif.props.c09 import modular_sd
            sd.update(modular_sd(modular, names))
        # a quarter of the interface-aware runs use the dedicated offline-only / online-only class of the semantics
        # (rtamt.spec.iastl.*: IAStlInputVacuityDiscreteTimeOnlineSpecification, ...) instead of `semantics=`
        ded = sem != 'standard' and kind in ('dt_off', 'dt_on', 'ct_off', 'ct_on') and not modular and \
            (len(text) + len(names)) % 4 == 0
        if ded:
            self._dedicated = getattr(self, '_dedicated', 0) + 1
        if kind == 'dt_off':
            return drive.values(drive.Mon('dt_off' if ded else 'dt', sd).evaluate(drive.dt_dataset(data)))
        if kind in ('dt_on', 'dt_on_pastified'):
            m = drive.Mon('dt_on' if ded else 'dt', sd, pastify=kind.endswith('pastified'))
            n = len(data[names[0]])
            return [m.update(i, [(k, data[k][i]) for k in names]) for i in range(n)]
        m = drive.Mon(kind if ded else 'ct', sd, pastify=kind.endswith('pastified'))
        if kind == 'ct_off':
            return m.evaluate(*drive.ct_args(sig, names))
        n = len(sig[names[0]])
        half = max(1, n // 2)
        out = []
        bounds = [0] + [c for c in (cuts or [half]) if 0 < c < n] + [n]
        for a, b in zip(bounds, bounds[1:]):
            if a < b:
                out += m.update(*[[k, [[float(t), v] for t, v in sig[k][a:b]]] for k in names])
        return out

    def judge(self, case):
        v = Verdict()
        f, kind, sem, io = case['formula'], case['kind'], case['sem'], case['io']
        text = lang.to_text(f)
        dense = kind.startswith('ct')
        rel = rel_for(f)
        preds = [g for g in lang.walk(f) if g[0] in lang.CMP]
        over = [insensitive(g, sem, io) for g in preds]
        v.nontrivial = sem != 'standard' and any(over) and not all(over)
        v.info['%s/%s' % (kind, sem)] = 1
        try:
            if not dense:
                data = case['data']
                names = sorted(data)
                n = len(data[names[0]])
                if kind == 'dt_on_pastified':
                    h = lang.horizon(f)
                    hk = hook_discrete(sem, io)
                    exp = [refd.evaluate(f, data, i + 1, pred_hook=hk)[i - h] if i >= h else float('nan')
                           for i in range(n)]
                else:
                    exp = refd.evaluate(f, data, n, pred_hook=hook_discrete(sem, io))
            else:
                sig = sig_from_json(case['signals'])
                names = sorted(sig)
                exp = ref_dense.evaluate(f, sig, pred_hook=hook_dense(sem, io))
        except refd.Undefined:
            v.skip = 'reference undefined (domain error)'
            return v
        try:
            if case.get('modular'):
                v.info['class:modular'] = 1
            if case.get('long'):
                v.info['class:long-batches'] = 1
            d0 = getattr(self, '_dedicated', 0)
            got = self.run_real(kind, text, names, sem, io, data=None if dense else data, sig=sig if dense else None,
                                modular=case.get('modular'), cuts=case.get('cuts'))
        except Exception as e:
            if dense and any(x != x for x in exp.vs):
                v.skip = 'raised on a NaN-tainted formula'
                return v
            v.bad('raises:' + type(e).__name__, '%s [%s, %s, io=%s]: raised %s: %s' % (
                text, kind, sem, io, type(e).__name__, e))
            return v
        if getattr(self, '_dedicated', 0) > d0:
            v.info['class:dedicated-ia-class'] = 1
        got_raw = got
        what = '%s [%s, %s, io=%s] on %s' % (text, kind, sem, io, case.get('data') or case.get('signals'))
        if not dense:
            i = next((i for i in range(n) if exp[i] == exp[i] and not refd.same(got[i], exp[i], rel)), None)
            if i is not None:
                v.bad('ia-value', '%s: value #%d is %r, expected %r (overridden predicates: %s)' % (
                    what, i, got[i], exp[i], [lang.to_text(p) for p, o in zip(preds, over) if o]))
                return v
        else:
            start = max(s[0][0] for s in sig.values())
            end = min(s[-1][0] for s in sig.values())
            if kind == 'ct_on_pastified':
                hh = float(lang.horizon(f))
                got = [[s[0] - hh, s[1]] for s in got]
            fin = [s for s in got if s[0] == s[0] and abs(s[0]) != INF]
            if not fin:
                if kind == 'ct_off':
                    v.bad('ia-empty', '%s: empty result' % what)
                return v
            lo = start if kind == 'ct_off' else max(start, ref_dense.Q(fin[0][0]))
            hi = end if kind == 'ct_off' else min(end, ref_dense.Q(fin[-1][0]))
            if hi >= lo:
                bad = ref_dense.compare(exp, got, lo, hi, lambda a, b: refd.same(a, b, rel))
                if bad is not None:
                    known = None
                    if set(s[0][0] for s in sig.values()) != set([0]) and sem == 'standard':
                        known = (findings.c04_attribution(f, sig, 'value', None, None) if kind == 'ct_off' else
                                 findings.c05_origin(f, sig, dict((k, []) for k in names)))
                    elif set(s[0][0] for s in sig.values()) != set([0]):
                        known = self.origin_known(case, names, sig, kind, sem, io, rel)
                    v.bad('ia-value', '%s: at t=%s observed %r expected %r (overridden predicates: %s); out=%s' % (
                        what, float(bad[0]), bad[1], bad[2], [lang.to_text(p) for p, o in zip(preds, over) if o],
                        got[:8]), known)
                    return v
        if sem == 'standard' and io:
            io2 = dict((k, 'input' if t == 'output' else 'output') for k, t in io.items())
            try:
                got2 = self.run_real(kind, text, names, sem, io2, data=None if dense else data,
                                     sig=sig if dense else None, modular=case.get('modular'), cuts=case.get('cuts'))
            except Exception as e:
                v.bad('raises:' + type(e).__name__, '%s: flipped io raised %s' % (what, type(e).__name__))
                return v
            if not monitors.same_num(got2, got_raw):
                v.bad('standard-depends-on-io', '%s: result changes when the io types are flipped: %s vs %s' % (
                    what, repr(got_raw)[:200], repr(got2)[:200]))
        return v

    def origin_known(self, case, names, sig, kind, sem, io, rel):
        """D-dense-origin under an IA semantics: right on the normalised (shifted to 0) inputs?"""
        f = case['formula']
        nsig, start = findings.normalise_signals(sig)
        try:
            exp = ref_dense.evaluate(f, nsig, pred_hook=hook_dense(sem, io))
            got = self.run_real(kind, lang.to_text(f), names, sem, io, sig=nsig)
        except Exception:
            return None
        fin = [s for s in got if s[0] == s[0] and abs(s[0]) != INF]
        if not fin:
            return None
        end = min(s[-1][0] for s in nsig.values())
        lo = Fr(0) if kind == 'ct_off' else ref_dense.Q(fin[0][0])
        hi = end if kind == 'ct_off' else min(end, ref_dense.Q(fin[-1][0]))
        if hi >= lo and ref_dense.compare(exp, got, lo, hi, lambda a, b: refd.same(a, b, rel)) is None:
            return 'D-dense-origin'
        return None


PROP = C06()
