"""C04 — dense-time offline evaluate() equals the dense-time STL semantics."""
from fractions import Fraction as Fr
from rtverif import lang, drive, findings
from rtverif import ref_discrete as refd
from rtverif import ref_dense as ref
from rtverif.props.base import Prop, Verdict, fmt
from rtverif.props.c01 import rel_for


def sig_text(signals):
    return dict((k, [[float(t), v] for t, v in s]) for k, s in signals.items())


def sig_from_json(d):
    return dict((k, [(Fr(t).limit_denominator(1 << 20), v) for t, v in s]) for k, s in d.items())


class C04(Prop):
    id = 'C04'
    rule_added = 'In every run 4 (thorough 64) cases with one operand sampled 70-300 times inside a single segment of the other, non-commutative operators. Re-use on signals that do not start at 0 (incl. consecutive recordings: the second set starts after the last stamp of the first) is compared with a fresh object on the same signals. 15% as modular specifications; half of the object re-uses put a failing call (one variable without numbers) between the two evaluations.'
    rule = ('random dense-time STL formulas (no prev/next/rise/fall; depth<=4; bounds multiples of 1/4) x 1..3 '
            'piecewise-constant signals with independent break-points (aligned, interleaved, single-sample, different '
            'first/last stamps; 1..8 samples each, stamps multiples of 1/4): a fresh spec evaluates them and the '
            'returned sample list is checked for (b) non-decreasing stamps, (c) first stamp = start of the common '
            'domain, (a) equality with the reference step function at every break-point of either side and every '
            'mid-point between them inside [start, min last stamp]. distinct = hash(formula, signals); non-trivial '
            '= >=1 temporal operator and >=2 break-points in the reference result.')
    assumptions = ['dense since/until are read as non-strict with closed witness interval [t\',t] (the reading under '
                   'which the unbounded operators of the pinned tree are right); merging of equal samples is free',
                   'NaN positions are not compared']
    floors = {'quick': (200, 50), 'thorough': (4000, 1000)}
    must_reach = ['offline/ast_visitor:StlDenseTimeOfflineAstVisitor.visitPredicate']
    quick_cases = 6000
    thorough_cases = 2000000
    shrink_data = False

    def shrinkable(self, case):
        return not case.get('modular') and not case.get('long')

    def gen(self, rng, ctx):
        c = lang.dense_cfg(rng)
        c.unless = rng.random() < 0.4        # the `unless` sugar (always[0,b] or until[a,b]) next to the other operators
        if rng.random() < 0.12:
            c.transcend = True
        if rng.random() < 0.2:
            c.untyped = 0.2
        modular = rng.random() < 0.15
        if modular:
            c.dup = 0.35
        f = lang.gen_formula(rng, c)
        names = lang.variables(f) or [c.vars[0]]
        case = {'formula': f, 'signals': sig_text(lang.gen_signals(rng, names)),
                'kind': rng.choice(['ct', 'ct', 'ct_off'])}
        if modular and lang.depth(f) >= 2:
            top, defs = lang.decompose(rng, f, rng.randint(1, 3))
            if defs:
                case['modular'] = {'top': lang.to_jsonable(top), 'defs': [[nm, lang.to_jsonable(g)] for nm, g in defs],
                                   'consts': [], 'style': rng.choice(['one-text', 'subspecs'])}
        if rng.random() < (0.5 if modular else 0.2):
            from fractions import Fraction as Fr
            if rng.random() < 0.6:
                # object re-use is only judged on signals that start at 0 (see judge): make that the common case
                case['signals'] = sig_text(dict((k, lang.gen_signal(rng, start=Fr(0))) for k in names))
                case['more'] = [sig_text(dict((k, lang.gen_signal(rng, start=Fr(0))) for k in names))]
            elif rng.random() < 0.5:
                case['more'] = [sig_text(lang.gen_signals(rng, names))]
            else:
                # consecutive recordings: the second set of signals starts after the last stamp of the first
                first = sig_from_json(case['signals'])
                off = max(s[-1][0] for s in first.values()) + Fr(rng.randint(1, 8), 4)
                nxt = lang.gen_signals(rng, names)
                lo = min(s[0][0] for s in nxt.values())
                case['more'] = [sig_text(dict((k, [(t - lo + off, val) for t, val in s]) for k, s in nxt.items()))]
            case['failing_between'] = rng.random() < 0.5 and len(names) >= 2
        if rng.random() < 0.1:
            case['useed'] = rng.randrange(1 << 30)
        return case

    def judge(self, case):
        v = Verdict()
        f = case['formula']
        sig = sig_from_json(case['signals'])
        names = sorted(sig)
        text = lang.to_text(f)
        if case.get('useed') is not None:
            import random
            text = lang.unit_text(f, random.Random(case['useed']), case.get('umode'))       # same durations, unit-suffix notation
            v.info['class:unit-suffixes'] = 1
        start = max(s[0][0] for s in sig.values())
        end = min(s[-1][0] for s in sig.values())
        if end < start:
            v.skip = 'empty common domain'
            return v
        try:
            exp = ref.evaluate(f, sig)
        except refd.Undefined:
            v.skip = 'reference undefined (domain error)'
            return v
        rel = rel_for(f)
        same = lambda a, b: refd.same(a, b, rel)
        v.nontrivial = lang.has_stateful(f) and len(exp.compact().ts) >= 2
        aligned = len(set(tuple(t for t, _ in s) for s in sig.values())) == 1
        v.info['class:' + ('aligned' if aligned else 'unaligned')] = 1
        v.info['start:' + ('0' if start == 0 else 'late')] = 1
        for o in lang.ops_of(f):
            v.info['op:' + o] = 1
        sd = {'text': text, 'vars': names}
        if aligned and not case.get('more') and not case.get('modular') and len(text) % 10 == 0:
            sd['structify'] = True           # inputs as fields of one object-typed variable (aligned signals only)
            v.info['class:struct-inputs'] = 1
        if case.get('modular') and case.get('useed') is None:
            from rtverif.props.c09 import modular_sd
            sd = modular_sd(case['modular'], names)
            v.info['class:modular'] = 1
        try:
            mon = drive.Mon(case.get('kind', 'ct'), sd)
            out = mon.evaluate(*drive.ct_args(sig, names))
        except Exception as e:
            if any(x != x for x in exp.vs):
                # the whole result is NaN-tainted (inf-inf): min/max/ordering on NaN are undetermined, and so is
                # what an implementation's interval bookkeeping does with them
                v.skip = 'raised on a NaN-tainted formula'
                return v
            v.bad('raises:' + type(e).__name__, '%s signals=%s: evaluate raised %s: %s' % (
                text, case['signals'], type(e).__name__, e),
                findings.c04_attribution(f, sig, 'raises', None, type(e).__name__))
            return v
        if not isinstance(out, list) or any((not isinstance(s, (list, tuple))) or len(s) != 2 for s in out):
            v.bad('shape', '%s: result %r' % (text, out))
            return v
        ts = [s[0] for s in out]
        if any(b < a for a, b in zip(ts, ts[1:])):
            v.bad('order', '%s signals=%s: time-stamps decrease: %s' % (text, case['signals'], fmt(ts, 20)),
                  findings.c04_attribution(f, sig, 'order', out, None))
        if not out:
            v.bad('empty', '%s signals=%s: empty result' % (text, case['signals']),
                  findings.c04_attribution(f, sig, 'empty', out, None))
            return v
        bad = ref.compare(exp, out, start, end, same)
        if bad is not None:
            t, o, e = bad
            v.bad('value', '%s signals=%s: at t=%s observed %r expected %r; out=%s ref=%s' % (
                text, case['signals'], float(t), o, e, out[:12], [(float(a), b) for a, b in exp.pairs()][:12]),
                findings.c04_attribution(f, sig, 'value', out, (t, o, e), rel))
            return v
        for s2j in case.get('more') or []:
            # the same specification object on another set of signals
            sig2 = sig_from_json(s2j)
            st2 = max(s[0][0] for s in sig2.values())
            en2 = min(s[-1][0] for s in sig2.values())
            if en2 < st2:
                break
            if set(s[0][0] for s in sig2.values()) != set([0]) or set(s[0][0] for s in sig.values()) != set([0]):
                # signals that do not start at 0 are the territory of the open finding D-dense-origin, which is a
                # deterministic function of the data: here the re-used object is compared with a FRESH object on the
                # same signals (where they differ inside the common domain, one of the two is not rho)
                self.reuse_vs_fresh(v, case, mon, sd, f, sig2, s2j, names, st2, en2, same, text)
                break
            if case.get('failing_between'):
                # a call that fails part-way in between (the last variable carries no numbers)
                badargs = drive.ct_args(sig2, names)
                badargs[-1] = [badargs[-1][0], [[t_, None] for t_, _ in badargs[-1][1]]]
                try:
                    mon.evaluate(*badargs)
                except Exception:
                    v.info['failing-call-between-evaluations'] = 1
            try:
                exp2 = ref.evaluate(f, sig2)
                out2 = mon.evaluate(*drive.ct_args(sig2, names))
            except refd.Undefined:
                break
            except Exception as e:
                v.bad('reuse-raises:' + type(e).__name__, '%s: second evaluate() on the same object raised %s: %s' % (
                    text, type(e).__name__, e))
                return v
            v.info['reused-object-evaluations'] = v.info.get('reused-object-evaluations', 0) + 1
            bad2 = ref.compare(exp2, out2, st2, en2, same) if out2 else (st2, None, None)
            if bad2 is not None:
                v.bad('reuse-value', '%s: second evaluate() on the same object, signals=%s: at t=%s observed %r '
                      'expected %r (first signals %s)' % (text, s2j, float(bad2[0]), bad2[1], bad2[2], case['signals']))
                return v
        if out[0][0] != -refd.INF and ref.Q(out[0][0]) != start:
            v.bad('origin', '%s signals=%s: result starts at %r, common domain starts at %s' % (
                text, case['signals'], out[0][0], float(start)),
                findings.c04_attribution(f, sig, 'origin', out, None))
        return v


    def reuse_vs_fresh(self, v, case, mon, sd, f, sig2, s2j, names, st2, en2, same, text):
        try:
            exp2 = ref.evaluate(f, sig2)
        except refd.Undefined:
            return
        try:
            fresh = drive.Mon(case.get('kind', 'ct'), sd).evaluate(*drive.ct_args(sig2, names))
        except Exception:
            return                      # a first evaluation that raises is judged as a case of its own
        try:
            out2 = mon.evaluate(*drive.ct_args(sig2, names))
        except Exception as e:
            v.bad('reuse-raises:' + type(e).__name__, '%s: evaluate() of signals=%s raised %s on an object that had '
                  'evaluated %s before; a fresh object returns normally' % (text, s2j, type(e).__name__, case['signals']))
            return
        v.info['reused-object-vs-fresh'] = v.info.get('reused-object-vs-fresh', 0) + 1
        if bool(out2) != bool(fresh) or (out2 and fresh and out2[0][0] != fresh[0][0]):
            v.bad('reuse-differs-from-fresh', '%s: on signals=%s an object that had evaluated %s before returns a result '
                  'starting at %r, a fresh object one starting at %r' % (
                      text, s2j, case['signals'], out2[0][0] if out2 else None, fresh[0][0] if fresh else None))
            return
        for t in ref.probe_times(exp2, list(out2) + list(fresh), st2, en2):
            if exp2.at(t) != exp2.at(t):
                continue
            x, y = ref.out_value(out2, t), ref.out_value(fresh, t)
            if (x is None) != (y is None) or (x is not None and not same(x, y)):
                v.bad('reuse-differs-from-fresh', '%s: on signals=%s at t=%s an object that had evaluated %s before '
                      'gives %r, a fresh object %r' % (text, s2j, float(t), case['signals'], x, y))
                return

    def extra(self, ctx):
        """Enumerated part: every dense-time temporal operator x every interval with end points in
        {0, 1/4, 1/2, 1, 2, 3} (and unbounded), over a bare variable and a predicate (thorough: also nested pairs),
        on aligned, unaligned and late-starting signals."""
        rng = ctx.rng
        x, y = lang.V('x'), lang.V('y')
        px, py = lang.N('geq', x, lang.C(1.0)), lang.N('leq', y, lang.C(0.5))
        pts = [Fr(0), Fr(1, 4), Fr(1, 2), Fr(1), Fr(2), Fr(3)]
        ivls = [None] + [(a, b) for i, a in enumerate(pts) for b in pts[i:]]
        forms = []
        for o in ('once', 'historically', 'eventually', 'always'):
            for iv in ivls:
                forms += [lang.N(o, x, ivl=iv), lang.N(o, px, ivl=iv)]
        for o in ('since', 'until', 'unless'):
            for iv in ivls:
                if o == 'unless' and iv is None:
                    continue
                forms.append(lang.N(o, px, py, ivl=iv))
        if ctx.tier == 'thorough':
            red = [None, (Fr(0), Fr(0)), (Fr(1, 2), Fr(1, 2)), (Fr(0), Fr(1)), (Fr(1, 4), Fr(2))]
            inner = [lang.N(o, px, ivl=iv) for o in ('once', 'historically', 'eventually', 'always') for iv in red]
            inner += [lang.N(o, px, py, ivl=iv) for o in ('since', 'until') for iv in red]
            for iv in red:
                forms += [lang.N(o, g, ivl=iv) for o in ('once', 'historically', 'eventually', 'always') for g in inner]
                forms += [lang.N(o, g, py, ivl=iv) for o in ('since', 'until') for g in inner]
        forms = [f for i, f in enumerate(forms) if i % ctx.nshards == ctx.shard]
        done = 0
        for f in forms:
            if ctx.out_of_time():
                ctx.notes.append('dense operator x interval enumeration stopped by the wall-clock budget after %d' % done)
                break
            names = lang.variables(f)
            for k in range(3):
                self.check(ctx, {'formula': f, 'signals': sig_text(lang.gen_signals(rng, names)), 'kind': 'ct'})
            if f[0] in ('since', 'until', 'unless') and f[1] is not None and f[1][1] > 0 and (
                    ctx.tier == 'thorough' or f[0] == 'unless' or done % 3 == 0):
                # the binary operators (and the two halves of the `unless` sugar) in every unit-suffix notation: both
                # ends, the same suffix, a suffix on one end only - which applies to the other end as well
                for um in ('both', 'same', 'end-only', 'begin-only'):
                    # (signals that start at 0: nothing here can be attributed to D-dense-origin)
                    self.check(ctx, {'formula': f, 'signals': sig_text(dict((k, lang.gen_signal(rng, n=rng.choice([4, 5, 6, 8]), start=Fr(0)))
                                                                            for k in names)), 'kind': 'ct',
                                     'useed': rng.randrange(1 << 30), 'umode': um})
                    ctx.count('enumerated-binary-operators-in-unit-notation')
            done += 1
        ctx.count('enumerated-operator-interval-formulas', done)
        # densely against sparsely sampled operands: one variable with 70..300 samples inside a single segment of the
        # other (what a block-wise merge of the two sample lists would meet), non-commutative operators
        N, V, C = lang.N, lang.V, lang.C
        temps = [N('leq', x, y), N('geq', N('sub', x, y), C(1.0)), N('implies', px, py), N('since', px, py),
                 N('until', px, py), N('geq', N('div', x, N('add', N('abs', y), C(1.0))), C(0.5)),
                 N('and', N('leq', x, y), N('once', py, ivl=(Fr(0), Fr(2))))]
        for k in range(4 if ctx.tier == 'quick' else max(2, 64 // ctx.nshards)):
            if ctx.out_of_time():
                break
            f = rng.choice(temps)
            m = rng.choice([70, 130, 300])
            dense = [(Fr(i, 2), rng.choice(lang.SMALL)) for i in range(m)]
            sparse = [(Fr(0), rng.choice(lang.SMALL)), (Fr(m, 4) + Fr(1, 4), rng.choice(lang.SMALL)),
                      (Fr(m, 2) - Fr(1, 4), rng.choice(lang.SMALL))]
            sig = {'x': dense, 'y': sparse} if rng.random() < 0.5 else {'x': sparse, 'y': dense}
            self.check(ctx, {'formula': f, 'signals': sig_text(sig), 'kind': 'ct', 'long': True})
            ctx.count('class:dense-against-sparse-operands')


PROP = C04()
