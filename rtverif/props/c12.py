"""C12 — get_value(name) is the robustness of the sub-formula bound to that name."""
from fractions import Fraction as Fr
from rtverif import lang, drive, monitors
from rtverif import ref_discrete as refd
from rtverif import ref_dense
from rtverif.props.base import Prop, Verdict, fmt
from rtverif.props.c01 import rel_for
from rtverif.props.c04 import sig_text, sig_from_json
from rtverif.props import c09

KINDS = c09.KINDS


class C12(Prop):
    id = 'C12'
    struct_inputs = False          # get_value() of the input variables is part of the property
    rule_added = 'A third of the offline objects have evaluated another recording before. 30% of the online cases after an earlier recording on the same object and reset(). Cases as generated for C09 (incl. named assertions that nothing refers to), including the sibling-unit named assertions and bound constants. A None returned by get_value for a name after the specification was evaluated is a violation.'
    rule = ('modular specifications with 1..4 named sub-specifications + the named top assertion (generated as for '
            'C09) on the 5 monitor configurations; after evaluate() / after every update(), get_value(v) of every input '
            'variable must return the data supplied and get_value(n) of every name must equal what a fresh stand-alone '
            'spec whose text is the (inlined) formula bound to n returns on the same data: the whole value column '
            '(discrete offline), the same step function (dense offline), the value of the same update (online; '
            'stand-alone spec pastified too if the spec was). distinct = hash(case); non-trivial = >=1 name bound to '
            'a stateful formula.')
    assumptions = ['dense offline values are compared as step functions on the common domain; dense online values as '
                   'the sample list returned for that update']
    floors = {'quick': (200, 60), 'thorough': (4000, 1000)}
    must_reach = []
    quick_cases = 1200
    thorough_cases = 500000

    def shrinkable(self, case):
        return False

    def gen(self, rng, ctx):
        case = c09.PROP.gen(rng, ctx)
        if case['kind'] in ('dt_on', 'dt_on_pastified', 'ct_on') and rng.random() < 0.3:
            case['prelude'] = rng.randint(1, 6)       # an earlier recording on the same object, then reset()
        return case

    def bound_formula(self, case, name):
        defs = [(nm, lang.from_jsonable(g)) for nm, g in case['defs']]
        top = lang.from_jsonable(case['top'])
        if name == 'out':
            f = lang.inline(top, defs)
        else:
            idx = [nm for nm, _ in defs].index(name)
            f = lang.inline(defs[idx][1], defs[:idx])
        for nm, val in case['consts']:
            f = lang.subst_var(f, nm, lang.C(val))
        return f

    def judge(self, case):
        v = Verdict()
        kind = case['kind']
        dense = kind.startswith('ct')
        names = sorted(case['signals'] if dense else case['data'])
        full = c09.inlined_formula(case)
        bound = dict((nm, self.bound_formula(case, nm)) for nm in [d[0] for d in case['defs']] + ['out'])
        v.nontrivial = any(lang.has_stateful(g) for g in bound.values())
        v.info['kind:' + kind] = 1
        try:
            if dense:
                sig = sig_from_json(case['signals'])
                ref_dense.evaluate(full, sig)
            else:
                n = len(case['data'][names[0]])
                refd.evaluate(full, case['data'], n)
        except refd.Undefined:
            v.skip = 'reference undefined (domain error)'
            return v
        used = set(lang.variables(full))
        in_names = [k for k in names if k in used]     # get_value is only demanded for variables the spec uses
        sd = c09.modular_sd(case, names)
        sd['vars'] = list(names) + [nm for nm in bound]       # names declared, as in the README example
        iasd, hk_d, hk_c = {}, None, None
        if case.get('ia') and kind != 'dt_on_pastified':
            from rtverif.props.c06 import hook_discrete, hook_dense
            hk_d, hk_c = hook_discrete(*case['ia']), hook_dense(*case['ia'])
            # the same interface-aware semantics and io assignment on the modular and on the stand-alone specs
            iasd = {'semantics': case['ia'][0], 'io': case['ia'][1]}
            sd = dict(sd, **iasd)
            v.info['class:interface-aware'] = 1
        api = 'ct' if dense else 'dt'
        pastify = (kind == 'dt_on_pastified')
        try:
            m = drive.Mon(api, sd, pastify=pastify)
            alone = dict((nm, drive.Mon(api, dict({'text': c09.text_of(case, g), 'vars': names}, **iasd), pastify=pastify))
                         for nm, g in bound.items())
        except Exception as e:
            v.skip = 'parse/pastify raised %s' % type(e).__name__
            return v
        rel = rel_for(full)

        def get(nm):
            try:
                r = m.get_value(nm)
                if r is None:
                    v.bad('get_value-none', '%s [%s]: get_value(%r) returned None after the specification was evaluated' % (
                        sd, kind, nm))
                return r
            except Exception as e:
                v.bad('get_value-raises:' + type(e).__name__, '%s [%s]: get_value(%r) raised %s: %s' % (
                    sd, kind, nm, type(e).__name__, e))
                return None

        try:
            if case.get('prelude') and kind in ('dt_on', 'dt_on_pastified'):
                # an earlier recording (other values) and reset(): every name - also one that the last assertion does
                # not refer to - must then report what a fresh stand-alone monitor reports
                for i in range(case['prelude']):
                    m.update(i, [(k, case['data'][k][(i * 7 + 3) % n] + 1.5) for k in names])
                m.reset()
                v.info['class:after-reset'] = 1
            elif case.get('prelude') and kind == 'ct_on':
                m.update(*[[k, [[float(t), val + 1.5] for t, val in sig[k][:max(1, len(sig[k]) // 2)]]] for k in names])
                m.reset()
                v.info['class:after-reset'] = 1
            if kind == 'dt_off':
                ds = drive.dt_dataset(case['data'])
                if n >= 2 and (n + len(sd['text'])) % 3 == 0:
                    # the object has evaluated another recording before (the columns rotated by one sample)
                    m.evaluate(dict((k, (list(col) if k == 'time' else list(col[1:]) + list(col[:1]))) for k, col in ds.items()))
                    v.info['class:second-evaluation'] = 1
                m.evaluate(ds)
                for k in in_names:
                    g = get(k)
                    if g is not None and not monitors.same_num(monitors.plain(g), [float(x) for x in ds[k]]):
                        v.bad('input-value', '%s: get_value(%r)=%r, data supplied %r' % (sd['text'], k, g, ds[k]))
                for nm, a in alone.items():
                    want = drive.values(a.evaluate(drive.dt_dataset(case['data'])))
                    got = get(nm)
                    if got is None:
                        continue
                    expn = refd.evaluate(bound[nm], case['data'], n, pred_hook=hk_d)
                    if not isinstance(got, list) or len(got) != n or any(
                            expn[i] == expn[i] and not refd.same(got[i], want[i], rel) for i in range(n)):
                        v.bad('named-value', '%s [%s] data=%s: get_value(%r)=%s but the stand-alone spec %s gives %s' %
                              (sd, kind, case['data'], nm, repr(got)[:200], lang.to_text(bound[nm]), fmt(want)))
                        break
            elif kind.startswith('dt_on'):
                for i in range(n):
                    inp = [(k, case['data'][k][i]) for k in names]
                    m.update(i, inp)
                    for k in in_names:
                        g = get(k)
                        if g is not None and g != case['data'][k][i]:
                            v.bad('input-value', '%s: after update #%d get_value(%r)=%r, supplied %r' % (
                                sd['text'], i, k, g, case['data'][k][i]))
                    stop = False
                    for nm, a in alone.items():
                        want = a.update(i, inp)
                        got = get(nm)
                        hn = lang.horizon(bound[nm]) if pastify else 0
                        if got is None or i < hn or want != want:
                            continue
                        if not refd.same(got, want, rel):
                            v.bad('named-value', '%s [%s] data=%s: after update #%d get_value(%r)=%r but the '
                                  'stand-alone spec %s returns %r' % (sd, kind, case['data'], i, nm, got,
                                                                      lang.to_text(bound[nm]), want))
                            stop = True
                            break
                    if stop or v.viol:
                        break
            elif kind == 'ct_off':
                args = drive.ct_args(sig, names)
                if len(sd['text']) % 3 == 0:
                    # the object has evaluated another recording before (same stamps, values rotated)
                    try:
                        m.evaluate(*[[nm, [[smp[0], vals_[(j + 1) % len(vals_)][1]] for j, smp in enumerate(vals_)]]
                                     for nm, vals_ in drive.ct_args(sig, names)])
                        v.info['class:second-evaluation'] = 1
                    except Exception:
                        m = drive.Mon(api, sd, pastify=pastify)
                m.evaluate(*args)
                start = max(s[0][0] for s in sig.values())
                end = min(s[-1][0] for s in sig.values())
                for k in in_names:
                    g = get(k)
                    if g is not None and not monitors.same_num(monitors.plain(g), dict(
                            (a[0], a[1]) for a in drive.ct_args(sig, names))[k]):
                        v.bad('input-value', '%s: get_value(%r)=%r' % (sd['text'], k, g))
                for nm, a in alone.items():
                    want = a.evaluate(*drive.ct_args(sig, names))
                    got = get(nm)
                    if got is None:
                        continue
                    expn = ref_dense.evaluate(bound[nm], sig, pred_hook=hk_c)
                    wstep = [s for s in want]
                    bad = None
                    for t in ref_dense.probe_times(expn, list(want) + list(got if isinstance(got, list) else []),
                                                   start, end):
                        if expn.at(t) != expn.at(t):
                            continue
                        x = ref_dense.out_value(got, t) if isinstance(got, list) else None
                        y = ref_dense.out_value(want, t)
                        if y is None:
                            continue
                        if x is None or not refd.same(x, y, rel):
                            bad = (t, x, y)
                            break
                    if bad:
                        v.bad('named-value', '%s [%s] signals=%s: get_value(%r) is %r at t=%s, the stand-alone spec %s '
                              'gives %r' % (sd, kind, case['signals'], nm, bad[1], float(bad[0]),
                                            lang.to_text(bound[nm]), bad[2]))
                        break
            else:
                nn = len(sig[names[0]])
                half = max(1, nn // 2)
                for a0, b0 in ((0, half), (half, nn)):
                    if a0 >= b0:
                        continue
                    mk = lambda: [[k, [[float(t), val] for t, val in sig[k][a0:b0]]] for k in names]
                    m.update(*mk())
                    stop = False
                    for nm, a in alone.items():
                        want = a.update(*mk())
                        got = get(nm)
                        if got is None:
                            continue
                        if not monitors.same_num(monitors.plain(got), monitors.plain(want)):
                            v.bad('named-value', '%s [%s] signals=%s: after the update with samples %d..%d '
                                  'get_value(%r)=%r, the stand-alone spec %s returned %r' % (
                                      sd, kind, case['signals'], a0, b0 - 1, nm, got, lang.to_text(bound[nm]), want))
                            stop = True
                            break
                    if stop:
                        break
        except Exception as e:
            if v.viol:
                return v
            v.skip = 'evaluation raised %s' % type(e).__name__
        return v


PROP = C12()
