"""Per-property workload + oracle modules.  Each exports PROP (an instance of base.Prop)."""
