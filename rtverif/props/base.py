"""Base class of a property check: generate a case, judge it, shrink and report."""
import resource
import signal

from rtverif import lang


class Watchdog(BaseException):
    """Raised by SIGALRM when one case runs longer than the per-case wall-clock limit.
    A firing is *inconclusive* for that case (counted, never a verdict by itself)."""


def _alarm(signum, frame):
    raise Watchdog()


def limit_resources(mem_gb=6):
    """Address-space cap: a runaway allocation inside rtamt becomes a MemoryError in this process
    (an observable symptom) instead of an OOM kill of the whole check."""
    try:
        lim = int(mem_gb * (1 << 30))
        resource.setrlimit(resource.RLIMIT_AS, (lim, lim))
    except Exception:
        pass
    signal.signal(signal.SIGALRM, _alarm)


def guarded(fn, seconds, *a):
    """Run fn(*a) under the per-case watchdog; returns (result, timed_out)."""
    signal.alarm(seconds)
    try:
        return fn(*a), False
    except Watchdog:
        return None, True
    except MemoryError:
        import gc
        gc.collect()
        return None, 'memory'
    finally:
        signal.alarm(0)


class Verdict(object):
    """Outcome of judging one case: list of (mechanism, known_key_or_None, message)."""

    def __init__(self):
        self.viol = []
        self.nontrivial = False
        self.skip = None
        self.info = {}

    def bad(self, mech, msg, known=None):
        self.viol.append((mech, known, msg))

    def mechs(self):
        return set(m for m, _, _ in self.viol)


class Prop(object):
    id = 'C00'
    rule = ''
    assumptions = []
    floors = {'quick': (50, 10), 'thorough': (500, 100)}
    must_reach = []
    quick_cases = 1000
    thorough_cases = 100000
    shrink_budget = 200
    shrink_data = True
    case_timeout = 30
    object_histories = True        # see drive.HISTORY
    reparse_histories = True
    struct_inputs = True           # see drive.STRUCT
    typed_inputs = True            # see drive.TYPED

    def gen(self, rng, ctx):
        raise NotImplementedError

    def judge(self, case):
        """Pure: run the real code on ``case`` and return a Verdict (no reporting)."""
        raise NotImplementedError

    def classify(self, case, mech, msg):
        """Map a violation to the key of a known finding, or None.  Default: nothing is known."""
        return None

    def shrinkable(self, case):
        return 'formula' in case

    def judge_with_history(self, case):
        """judge() with object prehistories switched on (drive.HISTORY), seeded by the case itself so that a
        replay of the case re-creates the same prehistories."""
        import random, zlib
        from rtverif import drive
        if not self.object_histories:
            return self.judge(case)
        import json
        from rtverif.runner import jsonable
        # (seeded by the JSON form of the case, so that the replay of a stored witness re-creates the prehistories)
        canon = json.dumps(jsonable(self.brief(case)), sort_keys=True, default=str)
        drive.begin_case(random.Random(zlib.crc32(canon.encode())),
                         reparse=self.reparse_histories, struct=self.struct_inputs,
                         typed=self.typed_inputs)
        try:
            v = self.judge(case)
            if v is not None and v.viol and drive.LAST_HISTORY:
                note = ' [prehistory of the monitor objects of this case: %s]' % '; '.join(drive.LAST_HISTORY[:4])
                v.viol = [(m, k, msg + note) for m, k, msg in v.viol]
            if v is not None and drive.LAST_HISTORY:
                v.info['cases-with-object-prehistory'] = 1
            return v
        finally:
            drive.end_case()

    def check(self, ctx, case):
        case = self.normalise(case)
        v, timed_out = guarded(self.judge_with_history, self.case_timeout, case)
        if timed_out == 'memory':
            ctx.violation('memory-exhausted', 'the case drove the process into its address-space cap (6 GB): %s' %
                          repr(self.brief(case))[:500], self.brief(case), None)
            return Verdict()
        if timed_out:
            ctx.skip('watchdog: case exceeded %d s (inconclusive)' % self.case_timeout)
            ctx.count('watchdog')
            if len(ctx.notes) < 5:
                ctx.notes.append('watchdog fired on %s' % repr(self.brief(case))[:300])
            return Verdict()
        if v.skip:
            ctx.skip(v.skip)
            return v
        ctx.case(self.brief(case), v.nontrivial)
        for k, n in v.info.items():
            ctx.count(k, n)
        seen = set()
        for mech, known, msg in v.viol:
            if mech in seen:
                continue
            seen.add(mech)
            small = case
            key = known or ('NEW:' + mech)
            have = ctx.violations.get(key)
            if self.shrinkable(case) and (have is None or len(have['witnesses']) < 2):
                small, t_o = guarded(self.shrink, 120, case, mech, known is None)
                if t_o or small is None:
                    small = case
                v2, t_o = guarded(self.judge_with_history, self.case_timeout, small)
                if t_o:
                    v2, small = Verdict(), case
                for m2, k2, msg2 in v2.viol:
                    if m2 == mech and (known is not None or k2 is None):
                        known, msg = k2, msg2
                        break
                else:
                    small = case
            ctx.violation(mech, msg, self.brief(small), known)
        return v

    def brief(self, case):
        c = dict(case)
        if 'formula' in c and isinstance(c['formula'], tuple):
            c['text'] = lang.to_text(c['formula'])
            c['formula'] = lang.to_jsonable(c['formula'])
        return c

    def normalise(self, case):
        """Cases loaded from JSON carry list formulas; turn them back into tuples."""
        c = dict(case)
        if 'formula' in c and isinstance(c['formula'], list):
            c['formula'] = lang.from_jsonable(c['formula'])
        return c

    def shrink(self, case, mech, new_only=False):
        # a violation that no known finding explains must stay unexplained while it is shrunk (otherwise a new
        # defect on a formula that also meets the precondition of a known one would be shrunk into the known one)
        def fails(c):
            v = self.judge_with_history(c)
            return (not v.skip) and any(m == mech and (k is None or not new_only) for m, k, _ in v.viol)
        return lang.shrink(case, fails, budget=self.shrink_budget, shrink_data=self.shrink_data)

    def run(self, ctx):
        n = ctx.scale(self.quick_cases, self.thorough_cases)
        for i in range(n):
            if ctx.out_of_time():
                ctx.notes.append('stopped by wall-clock budget after %d cases' % i)
                break
            case = self.gen(ctx.rng, ctx)
            self.check(ctx, case)
        self.extra(ctx)

    def extra(self, ctx):
        pass


def work_counter():
    """Number of rtamt function bodies (visitX / update / reset / ... of the semantics, pastifier and explanation
    packages) entered so far, as counted by the runner's sys.monitoring telemetry; None when telemetry is off.
    A *logical* measure of work: verdicts about progress are stated in it, never in wall-clock time."""
    import sys
    t = getattr(sys.modules.get('__main__'), '_TELE', None)
    if not t:
        return None
    return sum(t.values())


def fmt(vals, lim=12):
    out = []
    for v in vals[:lim]:
        out.append('%g' % v if isinstance(v, float) else repr(v))
    return '[' + ', '.join(out) + (', ...' if len(vals) > lim else '') + ']'


def first_diff(obs, exp, rel=0.0):
    from rtverif.ref_discrete import same
    for i, (a, b) in enumerate(zip(obs, exp)):
        if not same(a, b, rel):
            return i
    return None
