"""Base class of a property check: generate a case, judge it, shrink and report."""
from rtverif import lang


class Verdict(object):
    """Outcome of judging one case: list of (mechanism, known_key_or_None, message)."""

    def __init__(self):
        self.viol = []
        self.nontrivial = False
        self.skip = None
        self.info = {}

    def bad(self, mech, msg, known=None):
        self.viol.append((mech, known, msg))

    def mechs(self):
        return set(m for m, _, _ in self.viol)


class Prop(object):
    id = 'C00'
    rule = ''
    assumptions = []
    floors = {'quick': (50, 10), 'thorough': (500, 100)}
    must_reach = []
    quick_cases = 1000
    thorough_cases = 100000
    shrink_budget = 200
    shrink_data = True

    def gen(self, rng, ctx):
        raise NotImplementedError

    def judge(self, case):
        """Pure: run the real code on ``case`` and return a Verdict (no reporting)."""
        raise NotImplementedError

    def classify(self, case, mech, msg):
        """Map a violation to the key of a known finding, or None.  Default: nothing is known."""
        return None

    def shrinkable(self, case):
        return 'formula' in case

    def check(self, ctx, case):
        case = self.normalise(case)
        v = self.judge(case)
        if v.skip:
            ctx.skip(v.skip)
            return v
        ctx.case(self.brief(case), v.nontrivial)
        for k, n in v.info.items():
            ctx.count(k, n)
        seen = set()
        for mech, known, msg in v.viol:
            if mech in seen:
                continue
            seen.add(mech)
            small = case
            key = known or ('NEW:' + mech)
            have = ctx.violations.get(key)
            if self.shrinkable(case) and (have is None or len(have['witnesses']) < 2):
                small = self.shrink(case, mech)
                v2 = self.judge(small)
                for m2, k2, msg2 in v2.viol:
                    if m2 == mech:
                        known, msg = k2, msg2
                        break
                else:
                    small = case
            ctx.violation(mech, msg, self.brief(small), known)
        return v

    def brief(self, case):
        c = dict(case)
        if 'formula' in c and isinstance(c['formula'], tuple):
            c['text'] = lang.to_text(c['formula'])
            c['formula'] = lang.to_jsonable(c['formula'])
        return c

    def normalise(self, case):
        """Cases loaded from JSON carry list formulas; turn them back into tuples."""
        c = dict(case)
        if 'formula' in c and isinstance(c['formula'], list):
            c['formula'] = lang.from_jsonable(c['formula'])
        return c

    def shrink(self, case, mech):
        def fails(c):
            v = self.judge(c)
            return (not v.skip) and mech in v.mechs()
        return lang.shrink(case, fails, budget=self.shrink_budget, shrink_data=self.shrink_data)

    def run(self, ctx):
        n = ctx.scale(self.quick_cases, self.thorough_cases)
        for i in range(n):
            if ctx.out_of_time():
                ctx.notes.append('stopped by wall-clock budget after %d cases' % i)
                break
            case = self.gen(ctx.rng, ctx)
            self.check(ctx, case)
        self.extra(ctx)

    def extra(self, ctx):
        pass


def fmt(vals, lim=12):
    out = []
    for v in vals[:lim]:
        out.append('%g' % v if isinstance(v, float) else repr(v))
    return '[' + ', '.join(out) + (', ...' if len(vals) > lim else '') + ']'


def first_diff(obs, exp, rel=0.0):
    from rtverif.ref_discrete import same
    for i, (a, b) in enumerate(zip(obs, exp)):
        if not same(a, b, rel):
            return i
    return None
