"""C14 — the parser accepts exactly the specification language and fails only cleanly."""
import io
import sys
from rtverif import lang, drive, grammar
from rtverif import ref_discrete as refd
from rtverif.props.base import Prop, Verdict, fmt

TOKENS = ['-', '+', '*', '/', '(', ')', '{', '}', '[', ']', ';', ':', ',', '.', '@', 'abs', 'sqrt', 'exp', 'pow', 'log',
          'ln', 's', 'ms', 'us', 'ns', 'ps', 'topic', 'import', 'input', 'output', 'internal', 'const', 'real', 'float',
          'long', 'complex', 'int', 'bool', 'assertion', 'specification', 'from', 'not', '!', 'or', '|', 'and', '&',
          'iff', '<->', 'implies', '->', 'xor', 'rise', 'fall', 'always', 'G', 'eventually', 'F', 'until', 'U', 'unless',
          'W', 'historically', 'H', 'once', 'O', 'since', 'S', 'next', 'X', 'prev', 'Y', 's_next', 'sX', 's_prev', 'sY',
          '==', '!==', '>=', '<=', '>', '<', '=', 'true', 'FALSE', '0', '1', '2.5', '.5', '1e3', '0x1F', '0b101', '1_000',
          '007', 'x', 'y', 'z', 'k', 'out', 'x.f', 'a/b', '$v', '//c\n', '/* c */', '\n', ' ', '\t']
# (the second line: characters that Python's str.strip()/isspace() treat as white space but the lexer does not)
WS_LOOKALIKES = ['\x0b', '\x1c', '\x1d', '\x1e', '\x1f', '\x85', '\xa0', '\u2028', '\u2029', '\u3000', '\u2003', '\ufeff']
CHARS = WS_LOOKALIKES + ['#', '"', "'", '\\', '`', '~', '^', '%', '?', '\x00', '\x7f', 'é', 'φ', '≤', '∞', '퟿',
         '\U0001f600', '​', '﻿', '§', '°']


def tokenise_loose(text):
    """Split on the recogniser's tokens, keeping the separators, for token-level mutation."""
    try:
        return [s for _, s in grammar.lex(text)]
    except grammar.LexError:
        return text.split()


class C14(Prop):
    id = 'C14'
    rule_added = '15% of the accepted texts are followed, on the same object, by a text that uses the name the first one gave its assertion, or the name of a surplus column of a data set evaluated in between. 40% of the parse cases call parse() again on the same object (same text, or the text replaced by one of the other validity). Enumerated: 96 refused-declaration sequences (a refused constant declaration leaves no trace). Mutation: a field reference appended to an identifier.'
    rule = ('(A) fuzzing of parse(): generated valid texts (canonical and variant spellings, assertion heads, in-text '
            'declarations, comments) and their token-level mutants (delete/duplicate/swap/replace/insert a token of the '
            'language, unbalanced brackets, truncation at a random position), character-level mutants (illegal ASCII, '
            'NUL, arbitrary Unicode), interval anomalies (begin>end with and without units, undeclared bound '
            'constants), odd literals (hex, binary, underscores, leading zeros) and degenerate texts (empty, blanks, '
            'comment only). Oracle: parse() may only return normally on texts an independent maximal-munch lexer + '
            'Earley recogniser (transcribed from the three .g4 files) derives and whose intervals satisfy 0<=begin<=end '
            'with declared bound constants; it may only raise RTAMTException; every call is under a 20 s watchdog. '
            '(B) undeclared identifiers: a valid formula with some variables left undeclared must either be rejected '
            'with RTAMTException or behave exactly like the fully declared spec, offline and online. distinct = '
            'hash(text, declarations); non-trivial = the text is not one of the unmutated valid texts.')
    assumptions = ['rtverif/grammar.py is a faithful recogniser of LtlLexer.g4+LtlParser.g4+StlParser.g4 (validated: '
                   'every text the generators print is derivable, and ANTLR accepts it)',
                   'a derivable text rejected with RTAMTException is not a violation',
                   'termination is restated as bounded: a watchdog firing is inconclusive, never a violation']
    floors = {'quick': (500, 200), 'thorough': (10000, 4000)}
    must_reach = []
    quick_cases = 4000
    thorough_cases = 2500000
    case_timeout = 20

    def shrinkable(self, case):
        return False

    # -------------------------------------------------------------------------------------------
    def valid_text(self, rng):
        c = lang.GenCfg(vars=['x', 'y', 'z'], max_depth=rng.choice([1, 2, 2, 3]), unless=True, transcend=rng.random() < 0.2,
                        untyped=rng.choice([0.0, 0.2]), max_bound=4)
        f = lang.gen_formula(rng, c)
        r = rng.random()
        if r < 0.4:
            t = lang.to_text(f)
        else:
            t = lang.to_variant(f, lang.Style(rng=rng, alias=rng.random(), colon=rng.random(), minimal=rng.random() < 0.5,
                                              extra_parens=0.1))
        r = rng.random()
        if r < 0.25:
            t = 'out = ' + t
        if rng.random() < 0.4:
            t = t + ';'
        if rng.random() < 0.1:
            t = rng.choice(['// spec\n', '/* c */ ', 'specification s1 ', 'input float x ', 'const float k = 2.5 ',
                            'float w = 3 ']) + t
        elif rng.random() < 0.06:
            # declarations have no terminator: after an initialiser that is an expression, an assertion starting with
            # a unary minus (or a parenthesis) must still be read as the assertion
            t = rng.choice(['input float x = w\n', 'float z = 3 + 1\n', 'output float y = (x)\n', 'float w = k\n']) + \
                rng.choice(['-x <= 3', '- x <= 3;', '(-x) <= 3', 'out = -x <= 3', '-(x + y) >= 1'])
        return t

    def mutate(self, rng, t):
        r = rng.random()
        if r < 0.45:
            toks = tokenise_loose(t)
            if not toks:
                return t
            i = rng.randrange(len(toks))
            m = rng.choice(['del', 'dup', 'swap', 'rep', 'ins', 'ins'])
            if m == 'del':
                toks.pop(i)
            elif m == 'dup':
                toks.insert(i, toks[i])
            elif m == 'swap' and len(toks) > 1:
                j = rng.randrange(len(toks))
                toks[i], toks[j] = toks[j], toks[i]
            elif m == 'rep':
                toks[i] = rng.choice(TOKENS)
            else:
                toks.insert(i, rng.choice(TOKENS))
            return ' '.join(toks)
        if r < 0.5:
            # a field reference on an identifier (x.val, out.a.b): derivable; on a float variable there is no such
            # field, which rtamt may accept lazily or refuse with RTAMTException - never with another exception
            import re
            ids = [m for m in re.finditer(r'\b(x|y|z|out)\b(?!\.)', t)]
            if ids:
                m = rng.choice(ids)
                return t[:m.end()] + rng.choice(['.val', '.real', '.a.b', '.numer', '.x']) + t[m.end():]
        if r < 0.6:
            # (a third of them at the very end or the very beginning of the text, where a text normalisation would act)
            i = rng.choice([len(t), len(t), 0]) if rng.random() < 0.35 else rng.randrange(len(t) + 1)
            return t[:i] + rng.choice(CHARS) + t[i:]
        if r < 0.7:
            return t[:rng.randrange(len(t) + 1)]
        if r < 0.8:
            i = rng.randrange(len(t) + 1)
            return t[:i] + rng.choice('()[]{}') + t[i:]
        if r < 0.9:
            a, b = rng.choice([(2, 1), (3, 0), (1, 1), (0, 2)])
            u1, u2 = rng.choice([('', ''), ('s', 'ms'), ('ms', 's'), ('', 'ms'), ('us', '')])
            op = rng.choice(['always', 'once', 'eventually', 'historically'])
            bound = rng.choice(['%s%s' % (b, u2), 'kk', 'kk %s' % u2 if u2 else 'kk'])
            return '%s[%s%s,%s] (%s)' % (op, a, u1, bound, t.rstrip(';'))
        if r < 0.95:
            lit = rng.choice(['0x1F', '0b101', '1_000', '007', '1e400', '1.', '.5e-3', '00', '0x', '1__0', '9' * 40])
            return '(%s) and (x >= %s)' % (t.rstrip(';'), lit)
        # numeric edges: literals of extreme magnitude or length (all tokens of the language) in a predicate, as an
        # interval bound, or as the value of a declared constant used as a bound
        big = rng.choice(['1e400', '1e309', '9' * 310, '9' * rng.choice([4299, 4300, 4301, 4400, 9000]), '1e4400',
                          '1' + '0' * 4400 + '.5', '1e-400', '0.' + '0' * 4400 + '1', '0.' + '1' * 5000, '1e-5000',
                          '1.7976931348623157e308', '1.7976931348623159e308', '4.9e-324', '2e-324'])
        op = rng.choice(['always', 'once', 'eventually', 'historically'])
        k = rng.random()
        if k < 0.3:
            return '(%s) and (x >= %s)' % (t.rstrip(';'), big)
        if k < 0.6:
            return '%s[0%s%s%s] (%s)' % (op, rng.choice([':', ',']), big, rng.choice(['', '', 's', 'ms']), t.rstrip(';'))
        if k < 0.8:
            return '%s[%s:%s] (%s)' % (op, big, big, t.rstrip(';'))
        return 'const float kbig = %s;\nout = %s[0:kbig] (%s)' % (big, op, t.rstrip(';').replace('out = ', ''))

    def gen(self, rng, ctx):
        r = rng.random()
        if r < 0.12:
            return self.gen_undeclared(rng)
        if r < 0.15:
            t = rng.choice(['', ' ', ';', '\n', '// only a comment', '/* c */', ';;', '()', '[0,1]', 'x', 'out =', '= x;',
                            'x unless y', 'x W y;', 'always[0,1]', 'G[0:1s] x', '1', '-1', '- - 1', 'x;y', 'x; y;',
                            'a = x; b = a and y; out = b or a;', 'always[0,kk] x', 'always[1,0] x', 'once[2s,1000ms] x',
                            'once[1001ms,1s] x', 'out = (x.val >= 1)', 'x.val >= 1', 'out.val = (x >= 1)',
                            'float x\nout = (x.numer >= 1)', 'out = ((y.a.b <= 2) and (x.real >= 0))'])
            return {'type': 'parse', 'text': t, 'declared': ['x', 'y'], 'mutated': True, 'again': rng.choice([0, 1, 2, 5])}
        t = self.valid_text(rng)
        mutated = rng.random() < 0.8
        if mutated:
            t = self.mutate(rng, t)
            if rng.random() < 0.2:
                t = self.mutate(rng, t)
        return {'type': 'parse', 'text': t, 'declared': rng.choice([['x', 'y', 'z'], ['x'], []]), 'mutated': mutated,
                'const': rng.random() < 0.3, 'again': rng.choice([0, 0, 0, 1, 2, 3, 4, 5, 5])}

    def gen_undeclared(self, rng):
        c = lang.GenCfg(vars=['x', 'y', 'z'], max_depth=rng.choice([1, 2, 3]), future=rng.random() < 0.5, max_bound=3)
        f = lang.gen_formula(rng, c)
        names = lang.variables(f) or ['x']
        und = [v for v in names if rng.random() < 0.6] or names[:1]
        n = rng.randint(1, 8)
        return {'type': 'undeclared', 'formula': f, 'undeclared': und, 'data': lang.gen_trace(rng, names, n)}

    # -------------------------------------------------------------------------------------------
    def judge_expect(self, case):
        """Texts whose intervals are out of order only through the units written next to a declared constant that is
        used as a bound more than once (`once[0:T s] p and always[1 s:T ms] q` with T = 3: 1 s > 3 ms): parse() must
        raise RTAMTException."""
        v = Verdict()
        v.nontrivial = True
        v.info['class:' + case.get('cls', 'constant-bound-used-twice')] = 1
        err, old = io.StringIO(), sys.stderr
        sys.stderr = err
        try:
            try:
                s = drive.build_spec(case['api'], {'text': case['text'], 'vars': ['x', 'y'], 'consts': case['consts']})
            except Exception as e:
                v.skip = 'declarations refused (%s)' % type(e).__name__
                return v
            try:
                if case.get('unit') is not None:
                    # (a default unit the library does not know: it may refuse the assignment or the parse() -
                    # with RTAMTException)
                    s.unit = case['unit']
                s.parse()
            except Exception as e:
                if not drive.is_rtamt_exc(e):
                    v.bad('parse-raises:' + type(e).__name__, 'parse() of %r (constants %s, default unit %r) raised %s: %s' % (
                        case['text'], case['consts'], case.get('unit'), type(e).__name__, e))
                return v
        finally:
            sys.stderr = old
        if case.get('accept_ok'):
            return v
        v.bad('accepted-bad-interval', 'parse() accepted %r with %s: %s' % (
            case['text'], case['consts'], case.get('why', 'the second interval has begin > end')))
        return v

    def judge(self, case):
        if case['type'] == 'expect':
            return self.judge_expect(case)
        if case['type'] == 'refused':
            return self.judge_refused(case)
        return self.judge_parse(case) if case['type'] == 'parse' else self.judge_undeclared(case)

    def judge_refused(self, case):
        """A declaration that rtamt refuses leaves no trace: after `declare_var('T')`, a refused
        `declare_const('T', ..)` (or a refused in-text `const .. T`), the name T is still not a constant, so a text
        that uses it as an interval bound is not derivable ("bound constants declared") and must be rejected."""
        v = Verdict()
        v.nontrivial = True
        api, how, op, pos = case['api'], case['how'], case['op'], case['pos']
        v.info['refused-declaration:%s' % how] = 1
        err, old = io.StringIO(), sys.stderr
        sys.stderr = err
        try:
            s = drive.build_spec(api, {'text': 'out = (x >= 1)', 'vars': ['x', 'T']})
            refused = False
            try:
                if how == 'api':
                    s.declare_const('T', case['ctype'], case['cval'])
                else:
                    s.spec = 'const %s T = %s;\nout = (x >= 1)' % (case['ctype'], case['cval'])
                    s.parse()
            except Exception as e:
                refused = True
                if not drive.is_rtamt_exc(e):
                    v.bad('refused-declaration-raises:' + type(e).__name__, 'declaring the constant T over the variable T '
                          '(%s) raised %s: %s' % (how, type(e).__name__, e))
                    return v
            if not refused:
                v.skip = 'the second declaration of T was accepted'
                return v
            ivl = '[0:T]' if pos == 'end' else '[T:5]'
            body = '(x >= 1) %s%s (x <= 3)' % (op, ivl) if op in ('since', 'until') else '%s%s (x >= 1)' % (op, ivl)
            s.spec = 'out = ' + body
            try:
                s.parse()
            except Exception as e:
                if not drive.is_rtamt_exc(e):
                    v.bad('parse-raises:' + type(e).__name__, 'parse() of %r after a refused declaration raised %s' % (
                        body, type(e).__name__))
                return v
            v.bad('accepted-undeclared-bound', 'parse() accepted %r on a %s object although T is a variable: the refused '
                  'constant declaration (%s, %s %s) left the name behind as a constant' % (
                      body, api, how, case['ctype'], case['cval']))
        finally:
            sys.stderr = old
        return v

    def judge_parse(self, case):
        v = Verdict()
        text = case['text']
        declared = case.get('declared', [])
        consts = [('kc', 'float', '2')] if case.get('const') else []
        v.nontrivial = bool(case.get('mutated'))
        entire = text
        if entire == '' or entire[-1] != ';':
            entire = entire + ';'
        # (the large regular texts of the enumerated part are derivable by construction: the cubic recogniser is
        # not run on thousands of tokens)
        ok, why = (True, '') if case.get('deep') else grammar.derivable(entire)
        probs = grammar.interval_problems(entire, [c[0] for c in consts]) if ok else []
        v.info['class:' + ('derivable' if ok and not probs else 'underivable')] = 1
        err = io.StringIO()
        old = sys.stderr
        sys.stderr = err
        m = None
        try:
            try:
                m = drive.Mon('dt', {'text': text, 'vars': declared, 'consts': consts}, parse=False)
                m.parse()
            finally:
                sys.stderr = old
        except Exception as e:
            if drive.is_rtamt_exc(e):
                v.info['outcome:RTAMTException'] = 1
                if ok and not probs and case.get('mutated') is False and case.get('declared') == ['x', 'y', 'z'] \
                        and not case.get('const'):
                    # "accepts exactly the specification language": a text the generator built as a valid
                    # specification (all variables declared, nothing mutated) must be accepted
                    v.bad('rejected-valid', 'parse() rejected the valid specification %r: %s' % (text, str(e)[:200]))
                    return v
                if m is not None:
                    self.again(v, m, text, False, case)
                return v
            v.bad('parse-raises:' + type(e).__name__, 'parse() of %r raised %s: %s (recogniser: %s)' % (
                text, type(e).__name__, str(e)[:120], 'derivable' if ok else why))
            return v
        v.info['outcome:accepted'] = 1
        if not ok:
            v.bad('accepted-underivable', 'parse() accepted %r, which is not derivable: %s; lexer console said: %r' % (
                text, why, err.getvalue()[:120]))
        elif probs:
            v.bad('accepted-bad-interval', 'parse() accepted %r: %s' % (text, '; '.join(probs)))
        else:
            self.again(v, m, text, True, case)
        return v

    def again(self, v, m, text, accepted, case):
        """The verdict of parse() belongs to the text, not to the history of the object: a second parse() of the
        same text, and a parse() after the text was replaced, must decide like a fresh object does."""
        k = case.get('again', 0)
        if not k:
            return
        if k in (3, 4):
            return self.again_names(v, m, text, accepted, k)
        err, old = io.StringIO(), sys.stderr
        sys.stderr = err
        try:
            if k == 1:
                label, want = 'second parse() of the same text', accepted
            elif k == 5:
                # another illegal text, whose (only) error lies far behind anything the first text contained - at the
                # very end of a long line, or some lines further down: it is illegal whatever the object saw before
                pad = ' ' * (len(text) % 7)
                other = [
                    'out = ((x >= 1) and ((y >= 1) or (z <= 2)) and (always[0,2] (x >= 0)) and ((y >= 1)' + pad,
                    'out = ((x >= 1) and ((y >= 1) or (z <= 2)) and (once[0,2] (x >= 0))) and (y # 1)',
                    'out = (x >= 1)\n\n\n  and ((y >= 1)\n or (z <= 2)\n and (x <= 3)',
                    'out = (((x >= 1)))\n\n\n\n\n and (y >= 1) (z <= 2)',
                    'out = ((x >= 1) and ((y >= 1) or (z <= 2)) and (historically[0,2] (x >= 0)))) ' + pad,
                    'out = ((x >= 1) and ((y >= 1) or (z <= 2)) and (x <= 3) and (y <= 3) and (z >= 0)) and (y >= ?)',
                ][(len(text) + case.get('seq', 0)) % 6]
                m.spec.spec = other
                label, want = 'parse() after the text was replaced by the illegal text %r' % other, False
            else:
                other = 'out = ((x >= 1) and' if accepted else 'out = (once[0,1] (x >= 1))'
                m.spec.spec = other
                label, want = 'parse() after the text was replaced by %r' % other, not accepted
            try:
                m.parse()
                got = True
            except Exception as e:
                if not drive.is_rtamt_exc(e):
                    v.bad('reparse-raises:' + type(e).__name__, '%r (first parse %s): %s raised %s: %s' % (
                        text, 'accepted' if accepted else 'rejected', label, type(e).__name__, str(e)[:120]))
                    return
                got = False
        finally:
            sys.stderr = old
        v.info['reparse:%d' % k] = 1
        if k == 2 and not accepted and not got:
            # a valid text after a rejected one was refused cleanly: the rejected text may have left in-text
            # declarations behind ('x x - y ...' declares a variable x of type x before it fails); the statement
            # only forbids acceptance of underivable texts and unclean failures
            v.info['reparse:valid-text-refused-cleanly-after-a-rejected-one'] = 1
            return
        if k == 1 and accepted and not got:
            # re-parsing an accepted text may be refused cleanly (its in-text declarations exist already):
            # the statement only forbids acceptance of underivable texts and unclean failures
            v.info['reparse:accepted-text-refused-cleanly'] = 1
            return
        if got != want:
            v.bad('reparse-differs', '%r was %s by the first parse(); %s on the same object %s' % (
                text, 'accepted' if accepted else 'rejected with RTAMTException', label,
                'returned normally' if got else 'raised RTAMTException'))

    def again_names(self, v, m, text, accepted, k):
        """After an accepted parse(), a second text on the same object uses (k=3) the name the first text gave its
        assertion, or (k=4) the name of a surplus column of a data set that was evaluated in between: such an
        identifier is a sub-specification name, an implicitly declared float signal, or refused with RTAMTException -
        parse() never fails with another exception type."""
        import re
        if not accepted:
            return
        err, old = io.StringIO(), sys.stderr
        sys.stderr = err
        try:
            if k == 3:
                mm = re.match(r'\s*(?:/\*.*?\*/\s*|//[^\n]*\n\s*)*([A-Za-z_][A-Za-z_0-9]*)\s*=[^=]', text)
                name = mm.group(1) if mm and mm.group(1) not in lang.RESERVED else 'out'
                second = 'q2 = ((%s >= 2) and (x <= 3))' % name
                label = 'parse() of %r after the object had parsed this text' % second
            else:
                if re.search(r'\d{5,}|[eE][+-]?\d{2,}', text):
                    return           # (a window of 1e309 samples: the evaluation in between would never finish)
                try:
                    m.spec.evaluate({'time': [0, 1], 'x': [1.0, 2.0], 'y': [0.5, 0.0], 'z': [3.0, 1.0], 'zz': [1.0, 2.0]})
                except Exception:
                    return
                second = 'q3 = ((zz >= 1) or (x <= 3))'
                label = 'parse() of %r after an evaluate() whose data set had the surplus column zz' % second
            m.spec.spec = second
            try:
                m.parse()
                v.info['reparse:%d:accepted' % k] = 1
            except Exception as e:
                if not drive.is_rtamt_exc(e):
                    v.bad('reparse-raises:' + type(e).__name__, '%r: %s raised %s: %s' % (
                        text, label, type(e).__name__, str(e)[:120]))
                    return
                v.info['reparse:%d:refused-cleanly' % k] = 1
        finally:
            sys.stderr = old

    def judge_undeclared(self, case):
        v = Verdict()
        f, data, und = case['formula'], case['data'], case['undeclared']
        names = sorted(data)
        n = len(data[names[0]])
        text = lang.to_text(f)
        v.nontrivial = True
        v.info['class:undeclared-identifier'] = 1
        try:
            refd.evaluate(f, data, n)
        except refd.Undefined:
            v.skip = 'reference undefined'
            return v
        decl = [k for k in names if k not in und]
        online = not lang.has_future(f)
        try:
            want = drive.values(drive.dt_offline(text, names, data, n))
            want_on = drive.dt_online(text, names, data, n) if online else None
        except Exception as e:
            v.skip = 'fully declared spec raised %s' % type(e).__name__
            return v
        for mode in (['offline', 'online'] if online else ['offline']):
            try:
                m = drive.Mon('dt', {'text': text, 'vars': decl})
                if mode == 'offline':
                    got = drive.values(m.evaluate(drive.dt_dataset(data, n)))
                    exp = want
                else:
                    got = [m.update(i, [(k, data[k][i]) for k in names]) for i in range(n)]
                    exp = want_on
            except Exception as e:
                if drive.is_rtamt_exc(e):
                    continue
                v.bad('undeclared-crash:' + type(e).__name__, '%s with %s undeclared: %s raised %s: %s' % (
                    text, und, mode, type(e).__name__, e))
                return v
            if len(got) != len(exp) or any(not refd.same(a, b) and b == b for a, b in zip(got, exp)):
                v.bad('undeclared-not-a-float-signal', '%s with %s undeclared (%s): returns %s, the declared spec %s; '
                      'data=%s' % (text, und, mode, fmt(got), fmt(exp), data))
                return v
        return v


    def extra(self, ctx):
        """Enumerated part: for a corpus of generated valid texts, EVERY truncation (cut after each character) and
        every single-token deletion and duplication."""
        rng = ctx.rng
        ntexts = 25 if ctx.tier == 'quick' else max(4, 300 // ctx.nshards)
        done = 0
        for _ in range(ntexts):
            if ctx.out_of_time():
                ctx.notes.append('truncation/deletion enumeration stopped by the wall-clock budget')
                break
            t = self.valid_text(rng)
            decl = rng.choice([['x', 'y', 'z'], ['x'], []])
            variants = set(t[:i] for i in range(len(t) + 1))
            toks = tokenise_loose(t)
            for i in range(len(toks)):
                variants.add(' '.join(toks[:i] + toks[i + 1:]))
                variants.add(' '.join(toks[:i] + [toks[i]] + toks[i:]))
            for vt in sorted(variants):
                self.check(ctx, {'type': 'parse', 'text': vt, 'declared': decl, 'mutated': vt != t})
            done += 1
        ctx.count('texts-with-all-truncations-deletions-duplications', done)
        if ctx.shard == 0:
            # large but perfectly regular texts: chains of hundreds of operands, deep nesting of prefix operators and
            # of parentheses (generated requirement tables); parse() accepts them or raises RTAMTException
            for k in (250, 450):
                for o in ('and', 'xor', '+', 'until'):
                    body = (' %s ' % o).join('(x >= %d)' % i if o != '+' else 'x' for i in range(k))
                    self.check(ctx, {'type': 'parse', 'text': 'out = ' + (body if o != '+' else '(%s) >= 1' % body),
                                     'declared': ['x'], 'mutated': True, 'deep': k})
            for k in (220, 500):
                for pre, post in (('always[0,1](', ')'), ('not (', ')'), ('(', ')'), ('abs(', ')')):
                    body = pre * k + 'x' + post * k
                    self.check(ctx, {'type': 'parse', 'text': 'out = %s >= 1' % body if pre in ('(', 'abs(') else
                                     'out = ' + pre * k + '(x >= 1)' + post * k, 'declared': ['x'], 'mutated': True, 'deep': k})
            ctx.count('deep-or-long-texts', 2 * 4 + 2 * 4)
            for api in ('dt', 'ct'):
                for T in ('3', '2'):
                    for first, second in (('once[0:T s]', 'always[1 s:T ms]'), ('once[0:T ms]', 'always[5 ms:T us]'),
                                          ('historically[0:T s]', 'once[1 s:T ms]'), ('eventually[0:T]', 'always[1 s:T ms]')):
                        self.check(ctx, {'type': 'expect', 'api': api, 'consts': [('T', 'float', T)],
                                         'text': 'out = ((%s (x >= 1)) and (%s (y >= 1)))' % (first, second)})
            # bound constants declared through the API can carry a sign, which the grammar cannot write: an interval
            # whose begin (or both bounds) is negative violates 0 <= begin and must be rejected
            for api in ('dt', 'ct', 'dt_off', 'dt_on'):
                for op in ('always', 'once', 'eventually', 'historically', 'since', 'until', 'unless'):
                    for (cv, ct, ivl) in (('-3', 'int', '[T:2]'), ('-0.5', 'float', '[T:2]'), ('-2', 'float', '[T:T]'),
                                          ('-1', 'int', '[T s:2 s]'), ('-4', 'int', '[T:1 s]')):
                        body = '(x >= 1) %s%s (y <= 3)' % (op, ivl) if op in ('since', 'until', 'unless') else \
                            '%s%s (x >= 1)' % (op, ivl)
                        self.check(ctx, {'type': 'expect', 'api': api, 'consts': [('T', ct, cv)], 'text': 'out = ' + body,
                                         'cls': 'negative-bound-constant', 'why': 'the lower bound is negative'})
            # a default unit that the library does not know (`spec.unit = 'ps'`; ps is a unit of the lexer): the
            # assignment or the parse() of a text with an interval may be refused - with RTAMTException
            for api in ('dt', 'ct', 'dt_off', 'ct_on'):
                for unit in ('ps', 'fs', 'min', 'h', 'S', 'sec', '', 'Ms', 'm s', 1, None):
                    for body in ('always[1:2] (x >= 1)', 'once[0:3s] (x >= 1)', '(x >= 1) since[1ms:2] (y >= 1)', '(x >= 1)'):
                        if unit is None:
                            continue
                        self.check(ctx, {'type': 'expect', 'api': api, 'consts': [], 'text': 'out = ' + body, 'unit': unit,
                                         'cls': 'unknown-default-unit', 'accept_ok': True})
            for api in ('dt', 'ct', 'dt_off', 'ct_off', 'dt_on', 'ct_on'):
                for how in ('api', 'text'):
                    for op in ('always', 'once', 'until', 'historically'):
                        for pos in ('end', 'begin'):
                            ctype, cval = rng.choice([('int', '3'), ('float', '2.5'), ('float', '4')])
                            self.check(ctx, {'type': 'refused', 'api': api, 'how': how, 'op': op, 'pos': pos,
                                             'ctype': ctype, 'cval': cval})


PROP = C14()
