"""C10 — reset() returns an online monitor to its initial state."""
from rtverif import monitors, lang, drive
from rtverif import ref_discrete as ref
from rtverif.props.base import Prop, Verdict, fmt
from rtverif.props.c02 import past_cfg
from rtverif.props.c03 import bf_cfg


def jitter_stamps(rng, n, start=0.0):
    t, out = start, []
    for _ in range(n):
        out.append(t)
        t += rng.choice([1.0, 1.0, 1.0, 1.5, 0.25, 3.0])
    return out


class C10(Prop):
    id = 'C10'
    rule_added = '25% of the multi-variable cases contain an update that fails part-way (first update, first after a reset(), or after good ones). 30% of the dense cases in unit-suffix notation.'
    rule = ('discrete-time online monitors (past formulas and pastified bounded-future formulas, with and without '
            'named sub-specifications) are fed a random pre-reset history of 0..30 updates with jittered stamps, '
            'reset(), then 1..30 post-reset updates; every post-reset value and the sampling-violation counter are '
            'compared with a brand-new parsed (and pastified) monitor fed only the post-reset inputs; the counter must '
            'be 0 right after reset(); reset() must not raise (also before the first update). Dense-time online '
            'monitors likewise on their fragment. distinct = hash(case); non-trivial = stateful formula, >=2 pre-reset '
            'and >=2 post-reset updates.')
    assumptions = ['comparator is a fresh object of the same class built from the same text']
    floors = {'quick': (200, 60), 'thorough': (4000, 1000)}
    must_reach = ['abstract_online_interpreter:AbstractOnlineInterpreter.reset']
    quick_cases = 1500
    thorough_cases = 600000
    shrink_data = False

    def gen_dense(self, rng):
        from fractions import Fraction as Fr
        c = lang.dense_cfg(rng, future=False)
        c.max_depth = min(c.max_depth, 3)
        f = lang.gen_formula(rng, c)
        names = lang.variables(f) or [c.vars[0]]

        def sigs():
            base = lang.gen_signal(rng, n=rng.randint(1, 6), start=Fr(0))
            return dict((k, [[float(t), rng.choice(lang.SMALL)] for (t, _) in base]) for k in names)
        return {'dense': True, 'formula': f, 'pre_sig': sigs() if rng.random() < 0.85 else None, 'post_sig': sigs(),
                'useed': rng.randrange(1 << 30) if rng.random() < 0.3 else None}

    def judge_dense(self, case):
        v = Verdict()
        f = case['formula']
        names = sorted(case['post_sig'])
        text = lang.to_text(f)
        if case.get('useed') is not None:
            import random
            text = lang.unit_text(f, random.Random(case['useed']))      # same durations, unit-suffix notation
            v.info['class:unit-suffixes'] = 1
        v.nontrivial = lang.has_stateful(f) and case['pre_sig'] is not None
        v.info['class:dense' + ('' if case['pre_sig'] else '+reset-before-first-update')] = 1
        args = lambda sig: [[k, [list(p) for p in sig[k]]] for k in names]
        try:
            want = drive.Mon('ct', {'text': text, 'vars': names}).update(*args(case['post_sig']))
            m = drive.Mon('ct', {'text': text, 'vars': names})
            if case['pre_sig']:
                m.update(*args(case['pre_sig']))
        except Exception as e:
            v.skip = 'fresh monitor / history raised %s' % type(e).__name__
            return v
        try:
            m.reset()
        except Exception as e:
            v.bad('reset-raises:' + type(e).__name__, '%s [dense online]: reset() raised %s: %s' % (
                text, type(e).__name__, e))
            return v
        try:
            got = m.update(*args(case['post_sig']))
        except Exception as e:
            v.bad('update-after-reset-raises:' + type(e).__name__, '%s [dense online]: update after reset() raised %s'
                  % (text, type(e).__name__))
            return v
        if not monitors.same_num(got, want):
            v.bad('differs-from-fresh', '%s [dense online] pre=%s post=%s: after reset() update returns %s, a fresh '
                  'monitor %s' % (text, case['pre_sig'], case['post_sig'], got, want))
        return v

    def gen(self, rng, ctx):
        if rng.random() < 0.15:
            return self.gen_dense(rng)
        past = rng.random() < 0.6
        c = past_cfg(rng) if past else bf_cfg(rng)
        c.max_depth = min(c.max_depth, 4)
        f = lang.gen_formula(rng, c)
        while (not past) and lang.horizon(f) > 8:
            f = lang.gen_formula(rng, c)
        names = lang.variables(f) or [c.vars[0]]
        pre = rng.choice([0, 0, 1, 2, 3, 5, 8, 13, 30]) if rng.random() < 0.6 else rng.randint(0, 30)
        post = rng.randint(1, 30)
        sub = None
        if rng.random() < 0.3 and not lang.is_leaf(f):
            ks = [k for k in lang.kids(f) if not lang.is_leaf(k)]
            if ks:
                sub = lang.to_jsonable(rng.choice(ks))
        more = []
        for _ in range(rng.choice([0, 0, 1, 1, 2, 2, 2, 9] if rng.random() < 0.5 else [0, 0, 1, 1, 2])):
            k = rng.randint(1, 12)
            more.append({'data': lang.gen_trace(rng, names, k), 't': jitter_stamps(rng, k, rng.choice([0.0, 50.0]))})
        self._more = more
        case = {'formula': f, 'more': more, 'pastify': (not past), 'pre': lang.gen_trace(rng, names, pre) if pre else
                dict((k, []) for k in names), 'post': lang.gen_trace(rng, names, post),
                'pre_t': jitter_stamps(rng, pre), 'post_t': jitter_stamps(rng, post, rng.choice([0.0, 100.0])),
                'kind': rng.choice(['dt', 'dt_on']), 'sub': sub}
        if len(names) >= 2 and rng.random() < 0.25:
            # an update that fails part-way (one input is None) is an update fed before reset() too: as the first
            # update of the object, as the first one after a reset(), or after some good ones
            case['failing'] = {'where': rng.choice(['first', 'first', 'after-pre']), 'var': rng.choice(names),
                               'values': dict((k, rng.choice(lang.SMALL)) for k in names)}
        elif len(names) >= 2 and pre >= 1 and rng.random() < 0.2:
            # sparse post-reset inputs: some updates do not mention one of the variables (the monitor keeps the last
            # value it was given - for a fresh monitor that is the variable's initial value).  "The same subsequent
            # inputs" must give the same outputs, whatever was fed before reset()
            case['sparse'] = [rng.choice(names) if rng.random() < 0.45 else None for _ in range(post)]
        return case

    def sd(self, case):
        f = case['formula']
        names = sorted(case['post'])
        if case.get('sub'):
            g = lang.from_jsonable(case['sub'])
            top = lang.map_formula(f, lambda h: lang.V('sub1') if h == g else h)
            return {'text': 'out = ' + lang.to_text(top), 'vars': names + ['sub1', 'out'],
                    'subspecs': ['sub1 = ' + lang.to_text(g) + ';'], 'nostruct': bool(case.get('sparse'))}
        return {'text': lang.to_text(f), 'vars': names, 'nostruct': bool(case.get('sparse'))}

    def feed(self, m, names, data, ts, omit=None):
        out = []
        for i in range(len(ts)):
            out.append(m.update(ts[i], [(k, data[k][i]) for k in names if not (omit and omit[i] == k)]))
        return out

    def judge(self, case):
        if case.get('dense'):
            return self.judge_dense(case)
        v = Verdict()
        f = case['formula']
        names = sorted(case['post'])
        npre, npost = len(case['pre_t']), len(case['post_t'])
        sd = self.sd(case)
        v.nontrivial = lang.has_stateful(f) and npre >= 2 and npost >= 2
        v.info['class:' + ('pastified' if case['pastify'] else 'past') + ('+subspec' if case.get('sub') else '')] = 1
        v.info['pre:%s' % ('0' if npre == 0 else '1+')] = 1
        try:
            exp_nan = ref.evaluate(f, case['post'], npost) if not case['pastify'] else None
        except ref.Undefined:
            v.skip = 'reference undefined (domain error)'
            return v
        try:
            fresh = drive.Mon(case['kind'], sd, pastify=case['pastify'])
            want = self.feed(fresh, names, case['post'], case['post_t'], case.get('sparse'))
            want_c = fresh.counter
            if case.get('sparse'):
                v.info['class:sparse-post-reset-inputs'] = 1
        except Exception as e:
            v.skip = 'fresh monitor raised %s' % type(e).__name__
            return v
        fl = case.get('failing')

        def failing_update(mon, t):
            try:
                mon.update(t, [(k, None if k == fl['var'] else fl['values'][k]) for k in names])
                v.info['failing-update-returned'] = 1
            except Exception:
                v.info['failing-update-raised'] = 1
        try:
            m = drive.Mon(case['kind'], sd, pastify=case['pastify'])
            if fl and fl['where'] == 'first':
                failing_update(m, 0)
            else:
                self.feed(m, names, case['pre'], case['pre_t'])
                if fl:
                    failing_update(m, (case['pre_t'][-1] + 1) if npre else 0)
        except Exception as e:
            v.skip = 'pre-reset history raised %s' % type(e).__name__
            return v
        try:
            m.reset()
        except Exception as e:
            v.bad('reset-raises:' + type(e).__name__, '%s: reset() after %d updates raised %s: %s' % (
                sd, npre, type(e).__name__, e))
            return v
        if m.counter != 0:
            v.bad('counter-after-reset', '%s: counter=%r right after reset()' % (sd['text'], m.counter))
        try:
            got = self.feed(m, names, case['post'], case['post_t'], case.get('sparse'))
        except Exception as e:
            v.bad('update-after-reset-raises:' + type(e).__name__, '%s: update after reset() raised %s: %s' % (
                sd['text'], type(e).__name__, e))
            return v
        for i in range(npost):
            if exp_nan is not None and exp_nan[i] != exp_nan[i] and not case.get('sparse'):
                continue
            if want[i] != want[i]:
                continue
            if not ref.same(got[i], want[i]):
                v.bad('differs-from-fresh', '%s pre=%s post=%s: post-reset update #%d returned %r, a fresh monitor '
                      'returns %r' % (sd, case['pre'], case['post'], i, got[i], want[i]))
                break
        if m.counter != want_c:
            v.bad('counter-differs-from-fresh', '%s: counter after post-reset stamps %s is %r, fresh monitor %r' % (
                sd['text'], fmt(case['post_t']), m.counter, want_c))
        # further reset()/episode rounds on the same object
        for r, ep in enumerate(case.get('more') or []):
            if v.viol:
                break
            try:
                fresh = drive.Mon(case['kind'], sd, pastify=case['pastify'])
                want = self.feed(fresh, names, ep['data'], ep['t'])
                want_c = fresh.counter
            except Exception:
                break
            try:
                m.reset()
                if fl and fl['where'] == 'first':
                    failing_update(m, 0)            # the first update after a reset() fails; reset() again
                    m.reset()
                got = self.feed(m, names, ep['data'], ep['t'])
            except Exception as e:
                v.bad('reset-round-raises:' + type(e).__name__, '%s: reset() #%d + updates raised %s: %s' % (
                    sd['text'], r + 2, type(e).__name__, e))
                break
            v.info['extra-reset-rounds'] = v.info.get('extra-reset-rounds', 0) + 1
            for i in range(len(got)):
                if want[i] != want[i]:
                    continue
                if not ref.same(got[i], want[i]):
                    v.bad('differs-from-fresh', '%s: after reset() #%d update #%d returned %r, a fresh monitor returns %r '
                          '(episode %s)' % (sd, r + 2, i, got[i], want[i], ep['data']))
                    break
            if not v.viol and m.counter != want_c:
                v.bad('counter-differs-from-fresh', '%s: counter after reset() #%d is %r, fresh monitor %r' % (
                    sd['text'], r + 2, m.counter, want_c))
        return v


PROP = C10()
