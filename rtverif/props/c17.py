"""C17 — well-formed use never crashes; unsupported constructs are rejected with RTAMTException."""
from fractions import Fraction as Fr
from rtverif import lang, drive
from rtverif import ref_discrete as refd
from rtverif import ref_dense
from rtverif.props.base import Prop, Verdict, fmt

DISCRETE_ONLY = ('prev', 's_prev', 'next', 's_next', 'rise', 'fall')
KINDS = ('dt_off', 'dt_on', 'dt_on_pastified', 'ct_off', 'ct_on', 'ct_on_pastified')


def supported(f, kind):
    ops = lang.ops_of(f)
    unb = lang.has_unbounded_future(f)
    fut = lang.has_future(f)
    if kind == 'dt_off':
        return True
    if kind == 'dt_on':
        return not fut
    if kind == 'dt_on_pastified':
        return not unb
    dense_bad = bool(ops & set(DISCRETE_ONLY))
    if kind == 'ct_off':
        return not dense_bad
    if kind == 'ct_on':
        return not dense_bad and not fut
    if kind == 'ct_on_pastified':
        return not dense_bad and not unb and not (ops & set(['until', 'unless']))
    raise ValueError(kind)


class C17(Prop):
    id = 'C17'
    rule_added = 'Enumerated: prev/s_prev/next/s_next/rise/fall alone, beside, under and above a bounded-future operator on the dense-time kinds (after pastify() too). Enumerated: wide specifications (14-16 chained operands or nested operators of each kind; the work done, counted in rtamt function bodies entered, must stay within 300 per syntax node) and deep ones (190-320 operands/levels; must return normally) on the four monitor kinds. 2%: 250-450 supplied variables that the formula does not use. Offline objects are evaluated again on a shorter (down to one sample) and on a longer trace. Dense online feeds also staggered (variables start at different samples) and with an idle poll. 20% of the dense online cases feed the inputs as (nested) fields of one object-typed variable.'
    rule = ('random formulas over the whole operator alphabet x the 6 monitor configurations {discrete offline, '
            'discrete online, discrete online after pastify, dense offline, dense online, dense online after '
            'pastify} x degenerate but well-formed data shapes (one-sample traces, a declared variable the formula '
            'does not use, a supplied variable that is not declared, inputs in permuted order, 1..12 samples). A '
            'support matrix in the harness says what each configuration supports: supported => parse/pastify/first '
            'and later evaluations return normally; unsupported => RTAMTException no later than the first '
            'evaluation, never a value, never another exception type. distinct = hash(case); non-trivial = the '
            'formula has a temporal/event operator.')
    assumptions = ['support matrix (props/c17.py:supported) transcribed from the statement: unbounded future is '
                   'unsupported online; prev/next/s_prev/s_next/rise/fall are unsupported in dense time; bounded '
                   'until/unless is unsupported in the dense online monitor; bounded future online needs pastify()',
                   'formulas whose arithmetic is undefined on the data (reference raises a domain error) are skipped']
    floors = {'quick': (300, 100), 'thorough': (5000, 1500)}
    must_reach = []
    quick_cases = 3000
    thorough_cases = 2500000
    shrink_data = False

    def gen(self, rng, ctx):
        kind = rng.choice(KINDS)
        nv = rng.choice([1, 2, 2, 3])
        dense = kind.startswith('ct')
        c = lang.GenCfg(vars=list(lang.VAR_POOL[:nv]), max_depth=rng.choice([1, 1, 2, 2, 3]), unless=True,
                        max_bound=rng.choice([1, 2, 4]))
        r = rng.random()
        if dense and r < 0.6:
            c.prevnext = False
            c.events = False
        if kind in ('dt_on', 'ct_on') and r < 0.5:
            c.future = False
        if kind.endswith('pastified') and r < 0.7:
            c.unbounded_future = False
            if dense:
                c.timed_since_until = rng.random() < 0.3
        if rng.random() < 0.2:
            c.untyped = 0.2
        if rng.random() < 0.15:
            c.transcend = True
        f = lang.gen_formula(rng, c)
        names = lang.variables(f) or [c.vars[0]]
        n = rng.choice([1, 1, 1, 2, 3, 5, 12])
        shape = rng.choice(['plain', 'unused-declared', 'undeclared-supplied', 'permuted', 'plain'])
        if rng.random() < 0.02:
            shape = 'many-surplus'         # hundreds of supplied variables that the formula does not use
        extra = 'u_extra'
        data = lang.gen_trace(rng, names + [extra], n + 4)
        # offline: the same object is evaluated again on traces of other lengths (shorter, down to one sample, and longer)
        re = [rng.randint(1, n), n + rng.randint(1, 4)]
        if rng.random() < 0.5:
            re.reverse()
        return {'formula': f, 'kind': kind, 'data': data, 'n': n, 're': re, 'shape': shape, 'perm': rng.random(),
                'feed': rng.choice(['disjoint', 'disjoint', 'repeat-frontier', 'frontier-only', 'staggered', 'idle-poll']),
                'stagger': [rng.randint(0, 2) for _ in range(4)], 'structs': rng.random() < 0.2,
                'served': rng.random() < 0.25,
                'period': (rng.choice([[0.5, 's'], [0.25, 's'], [1.0, 's'], [500, 'ms'], [250, 'ms'], [1000, 'ms'], [500000, 'us']])
                           if rng.random() < 0.08 else None)}

    def judge_small(self, case):
        v = Verdict()
        f, kind, data, shape = case['formula'], case['kind'], case['data'], case['shape']
        used = lang.variables(f)
        names = sorted(k for k in data if k != 'u_extra')
        n = case.get('n') or len(data['u_extra'])
        text = lang.to_text(f)
        dense = kind.startswith('ct')
        sup = supported(f, kind)
        try:
            if dense:
                sig = dict((k, [(Fr(i), data[k][i]) for i in range(len(data[k]))]) for k in data)
                ref_dense.evaluate(f, sig) if not (lang.ops_of(f) & set(DISCRETE_ONLY)) else None
            else:
                refd.evaluate(f, data, len(data['u_extra']))
        except refd.Undefined:
            v.skip = 'reference undefined (domain error)'
            return v
        v.nontrivial = lang.has_stateful(f)
        v.info['%s:%s' % (kind, 'supported' if sup else 'unsupported')] = 1
        v.info['shape:' + shape] = 1
        if kind.startswith('ct_on'):
            v.info['feed:' + case.get('feed', 'disjoint')] = 1
        v.info['n:%s' % ('1' if n == 1 else '2+')] = 1
        declared = list(names)
        supplied = list(names)
        if shape == 'unused-declared':
            declared.append('u_extra')
            supplied.append('u_extra')
        elif shape == 'undeclared-supplied':
            supplied.append('u_extra')
        surplus = []
        if shape == 'many-surplus':
            k = 250 + int(case.get('perm', 0) * 200)             # 250..450 further variables, a few of them declared
            surplus = ['u%03d' % i for i in range(k)]
            data = dict(data)
            for i, nm in enumerate(surplus):
                data[nm] = list(data['u_extra'])
            declared += surplus[:3]
            supplied += surplus
        if shape == 'permuted' or case.get('perm', 0) < 0.3:
            supplied = list(reversed(supplied))
        api = {'dt_off': 'dt', 'dt_on': 'dt', 'dt_on_pastified': 'dt', 'ct_off': 'ct', 'ct_on': 'ct',
               'ct_on_pastified': 'ct'}[kind]
        stage = 'parse'
        got_value = False
        try:
            sdm = {'text': text, 'vars': declared}
            if kind.startswith('dt') and case.get('period'):
                # a sampling period that divides one second, written as a float or in a finer unit: every bound (whole
                # seconds) stays a multiple of it - a well-formed configuration
                sdm['period'] = tuple(case['period']) + (0.1,)
                v.info['class:sampling-period-%s%s' % tuple(case['period'])] = 1
            if kind.startswith('ct_on') and case.get('structs') and case.get('feed') != 'staggered':
                sdm['structify'] = True             # inputs as (nested) fields of one object-typed variable
                v.info['class:struct-inputs'] = 1
            if case.get('served') and kind in ('dt_on', 'ct_on') and sup and shape == 'plain' and 'structify' not in sdm:
                # the object has monitored another formula before: parse(A), two updates, then its text is replaced
                # by this specification and parsed (what a requirement editor with a live monitor does)
                v.info['class:object-monitored-another-formula-before'] = 1
                stage = 'earlier formula'
                nm0 = sorted(supplied)[0]
                m = drive.Mon(api, dict(sdm, text='(once (%s >= 1))' % nm0))
                if kind == 'dt_on':
                    for i in range(2):
                        m.update(i - 2, [(k, data[k][i % len(data[k])]) for k in supplied])
                else:
                    # (earlier stamps: time goes on when the new text takes over)
                    m.update(*[[k, [[float(i - 2), data[k][i % len(data[k])]] for i in range(2)]] for k in supplied])
                stage = 'parse of the new text'
                m.spec.spec = text
                m.parse()
                stage = 'first evaluation'
            else:
                m = drive.Mon(api, sdm)
            if kind.endswith('pastified'):
                stage = 'pastify'
                m.pastify()
            stage = 'first evaluation'
            if kind == 'dt_off':
                ds = {'time': list(range(n))}
                for k in supplied:
                    ds[k] = list(data[k][:n])
                r = m.evaluate(ds)
                got_value = True
                stage = 'second evaluation'
                m.evaluate(ds)
                for n2 in case.get('re') or []:
                    stage = 'evaluation of %d samples by an object that evaluated %d before' % (n2, n)
                    ds2 = {'time': list(range(n2))}
                    for k in supplied:
                        ds2[k] = list(data[k][:n2])
                    m.evaluate(ds2)
                    v.info['re-evaluations-on-other-lengths'] = v.info.get('re-evaluations-on-other-lengths', 0) + 1
            elif kind.startswith('dt_on'):
                for i in range(n):
                    r = m.update(i, [(k, data[k][i]) for k in supplied])
                    got_value = True
                    stage = 'later update'
            elif kind == 'ct_off':
                args = [[k, [[float(i), data[k][i]] for i in range(n)]] for k in supplied]
                r = m.evaluate(*args)
                got_value = True
                for n2 in case.get('re') or []:
                    stage = 'evaluation of %d samples by an object that evaluated %d before' % (n2, n)
                    m.evaluate(*[[k, [[float(i), data[k][i]] for i in range(n2)]] for k in supplied])
                    v.info['re-evaluations-on-other-lengths'] = v.info.get('re-evaluations-on-other-lengths', 0) + 1
            else:
                half = max(1, n // 2)
                feed = case.get('feed', 'disjoint')
                chunks = [(0, half), (half, n)]
                if feed == 'repeat-frontier' and half < n:
                    chunks = [(0, half), (half - 1, n)]              # second batch re-sends the frontier sample
                elif feed == 'frontier-only':
                    chunks = [(0, half), (half - 1, half), (half, n)]  # a batch with nothing but the frontier sample
                elif feed == 'idle-poll':
                    chunks = [(0, half), (half, half), (half, n)]      # a poll that brings nothing for any variable
                # staggered: the variables do not start together (variable j starts at sample off[j] < n)
                off = dict((k, min(case.get('stagger', [0] * 4)[j % 4], n - 1) if feed == 'staggered' else 0)
                           for j, k in enumerate(sorted(supplied)))
                for ci, (a, b) in enumerate(chunks):
                    if a >= b and not (feed == 'idle-poll' and ci == 1):
                        continue
                    args = [[k, [[float(i), data[k][i]] for i in range(max(a, off[k]), b)]] for k in supplied]
                    r = m.update(*args)
                    got_value = True
                    stage = 'later update'
        except Exception as e:
            if drive.is_rtamt_exc(e):
                if sup:
                    v.bad('supported-rejected', '%s [%s, shape=%s, n=%d]: %s raised RTAMTException: %s' % (
                        text, kind, shape, n, stage, e))
                elif got_value:
                    v.bad('rejected-too-late', '%s [%s]: RTAMTException only at %s, after a value was returned' % (
                        text, kind, stage))
                return v
            v.bad('crash:' + type(e).__name__, '%s [%s, shape=%s, n=%d, %s]: %s raised %s: %s' % (
                text, kind, shape, n, 'supported' if sup else 'unsupported', stage, type(e).__name__, e))
            return v
        if not sup:
            known = None
            v.bad('unsupported-yields-value', '%s [%s]: unsupported construct was not rejected, first evaluation '
                  'returned %r' % (text, kind, r if not isinstance(r, list) else r[:4]), known)
        return v


    # ---------------------------------------------------------------------------------------------------------
    # wide and deep specifications

    WIDE = (('sum', 14), ('sum', 16), ('not', 14), ('not', 16), ('xor', 14), ('mix', 16), ('neg', 14), ('abs', 16))
    DEEP = (('and', 260), ('or', 320), ('sum', 260), ('once', 190))

    def big_text(self, shape, k):
        """(text, number of syntax nodes, nesting depth) of a large but perfectly regular specification."""
        if shape == 'sum':
            return '(%s) <= 10' % ' + '.join(['x', 'y'] * (k // 2)), 2 * k + 1, k
        if shape in ('not', 'once', 'neg', 'abs'):
            pre = {'not': 'not (', 'once': 'once (', 'neg': '- (', 'abs': 'abs('}[shape]
            if shape in ('neg', 'abs'):
                return '%sx%s >= 1' % (pre * k, ')' * k), k + 3, k
            return '%s(x >= 1)%s' % (pre * k, ')' * k), k + 3, k
        if shape in ('and', 'or', 'xor'):
            return (' %s ' % shape).join('(%s >= %d)' % ('xy'[i % 2], i % 4) for i in range(k)), 4 * k, k
        if shape == 'mix':
            ops = ['and', 'or', 'xor', 'implies', 'iff']
            out = '(x >= 0)'
            for i in range(k):
                out = '(%s) %s (y >= %d)' % (out, ops[i % len(ops)], i % 3)
            return out, 4 * k, k
        raise ValueError(shape)

    def run_big(self, kind, text):
        m = drive.Mon({'dt_off': 'dt', 'dt_on': 'dt', 'ct_off': 'ct', 'ct_on': 'ct'}[kind],
                      {'text': 'out = ' + text, 'vars': ['x', 'y']})
        xs, ys = [1.0, 2.0, 0.5, 3.0], [0.0, 1.5, 2.0, 1.0]
        if kind == 'dt_off':
            return m.evaluate({'time': [0, 1, 2, 3], 'x': xs, 'y': ys})
        if kind == 'dt_on':
            return [m.update(i, [('x', xs[i]), ('y', ys[i])]) for i in range(4)]
        if kind == 'ct_off':
            return m.evaluate(['x', [[float(i), xs[i]] for i in range(4)]], ['y', [[float(i), ys[i]] for i in range(4)]])
        out = m.update(['x', [[0.0, xs[0]], [1.0, xs[1]]]], ['y', [[0.0, ys[0]], [1.0, ys[1]]]])
        return out + m.update(['x', [[2.0, xs[2]], [3.0, xs[3]]]], ['y', [[2.0, ys[2]], [3.0, ys[3]]]])

    def judge_big(self, case):
        """`wide`: 14-16 chained operands / nested operators; besides returning normally, the work done (rtamt
        function bodies entered, a logical step count) must stay within 300 per syntax node - a linear monitor needs a
        few dozen per node; doubling with every further operand is how 'never returns' looks at this size.
        `deep`: hundreds of operands or levels; must return normally."""
        from rtverif.props.base import work_counter
        v = Verdict()
        kind, shape, k = case['kind'], case['shape'], case['k']
        text, nodes, depth = self.big_text(shape, k)
        v.nontrivial = True
        v.info['big:%s' % case['big']] = 1
        w0 = work_counter()
        try:
            self.run_big(kind, text)
        except Exception as e:
            if drive.is_rtamt_exc(e):
                v.skip = 'large specification rejected cleanly (%s)' % str(e)[:60]
                return v
            known = None
            if isinstance(e, RecursionError) and depth >= 150:
                known = 'D-recursion-depth'
            v.bad('crash:' + type(e).__name__, 'out = %s [%s; %s, %d operands/levels]: raised %s' % (
                text[:80] + ' ...', kind, shape, k, type(e).__name__), known)
            return v
        w1 = work_counter()
        if case['big'] == 'wide' and w0 is not None and w1 is not None:
            v.info['big:work-measured'] = 1
            if w1 - w0 > 300 * nodes:
                v.bad('work-explodes', 'out = %s [%s; %s, %d operands/levels, %d syntax nodes, 4 samples]: %d rtamt function '
                      'bodies were entered (more than 300 per node; a linear monitor needs a few dozen per node)' % (
                          text[:80] + ' ...', kind, shape, k, nodes, w1 - w0))
        return v

    def judge(self, case):
        if case.get('big'):
            return self.judge_big(case)
        return self.judge_small(case)

    def shrinkable(self, case):
        return not case.get('big') and 'formula' in case

    def extra(self, ctx):
        if ctx.shard != 0:
            return
        # the operators that exist in discrete time only, in every position relative to a bounded-future operator, on
        # the dense-time kinds (after pastify() too): rejected with RTAMTException by the first evaluation
        N, V, C = lang.N, lang.V, lang.C
        px, py = N('geq', V('x'), C(1.0)), N('geq', V('y'), C(1.0))
        fut = N('eventually', py, ivl=(0, 2))
        for o in DISCRETE_ONLY:
            forms = [N(o, px), N('and', N(o, px), fut), N('or', fut, N(o, px)), N('eventually', N(o, px), ivl=(0, 1)),
                     N(o, fut), N('and', N(o, N('once', px)), N('always', py, ivl=(1, 2)))]
            for f in forms:
                for kind in ('ct_off', 'ct_on', 'ct_on_pastified'):
                    if kind == 'ct_on' and lang.has_future(f):
                        continue
                    self.check(ctx, {'formula': f, 'kind': kind, 'data': lang.gen_trace(ctx.rng, ['x', 'y', 'u_extra'], 6),
                                     'n': 4, 're': [], 'shape': 'plain', 'perm': 0.9, 'feed': 'disjoint',
                                     'stagger': [0, 0, 0, 0], 'structs': False})
                    ctx.count('class:discrete-only-operators-in-dense-time')
        # bounded until / unless of every small window (also the degenerate [0,0]) in the dense-time online monitor,
        # with and without pastify(): not supported, so rejected
        for o in ('until', 'unless'):
            for iv in ((0, 0), (0, 1), (1, 1), (1, 2)):
                for f in (N(o, px, py, ivl=iv), N('always', N(o, px, py, ivl=iv), ivl=(0, 1)), N('and', px, N(o, N('rise', px), py, ivl=iv))):
                    for kind in ('ct_on_pastified',):
                        self.check(ctx, {'formula': f, 'kind': kind, 'data': lang.gen_trace(ctx.rng, ['x', 'y', 'u_extra'], 6),
                                         'n': 4, 're': [], 'shape': 'plain', 'perm': 0.9, 'feed': 'disjoint',
                                         'stagger': [0, 0, 0, 0], 'structs': False})
                        ctx.count('class:bounded-until-in-dense-online')
        for kind in ('dt_off', 'dt_on', 'ct_off', 'ct_on'):
            for shape, k in self.WIDE:
                if shape in ('neg', 'abs', 'sum', 'not', 'xor', 'mix'):
                    self.check(ctx, {'big': 'wide', 'kind': kind, 'shape': shape, 'k': k})
            for shape, k in self.DEEP:
                self.check(ctx, {'big': 'deep', 'kind': kind, 'shape': shape, 'k': k})


PROP = C17()
