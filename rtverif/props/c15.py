"""C15 — syntactic variants and documented sugar denote the same monitor."""
import logging
from rtverif import monitors, lang, drive
from rtverif import ref_discrete as refd
from rtverif.lang import N
from rtverif.props.base import Prop, Verdict, fmt
from rtverif.props.c01 import rel_for


def ltl_spec(text, names):
    from rtamt.spec.abstract_specification import AbstractOfflineOnlineSpecification
    from rtamt.syntax.ast.parser.ltl.specification_parser import LtlAst
    from rtamt.semantics.stl.discrete_time.offline.interpreter import StlDiscreteTimeOfflineInterpreter
    from rtamt.semantics.stl.discrete_time.online.interpreter import StlDiscreteTimeOnlineInterpreter
    from rtamt.pastifier.ltl.pastifier import LtlPastifier
    s = AbstractOfflineOnlineSpecification(LtlAst(), StlDiscreteTimeOfflineInterpreter(),
                                           StlDiscreteTimeOnlineInterpreter(), pastifier=LtlPastifier())
    for v in names:
        s.declare_var(v, 'float')
    s.spec = text
    s.parse()
    return s


def ltl_online(text, names, data, n, period, stl_pastifier, times):
    """The LTL front end with the discrete-time online interpreter: pastify() + update() per sample."""
    from rtamt.spec.abstract_specification import AbstractOnlineSpecification
    from rtamt.syntax.ast.parser.ltl.specification_parser import LtlAst
    from rtamt.semantics.stl.discrete_time.online.interpreter import StlDiscreteTimeOnlineInterpreter
    from rtamt.pastifier.ltl.pastifier import LtlPastifier
    from rtamt.pastifier.stl.pastifier import StlPastifier
    s = AbstractOnlineSpecification(LtlAst(), StlDiscreteTimeOnlineInterpreter(),
                                    pastifier=(StlPastifier if stl_pastifier else LtlPastifier)())
    for v in names:
        s.declare_var(v, 'float')
    if period:
        s.set_sampling_period(period[0], period[1], 0.1)
    s.spec = text
    s.parse()
    s.pastify()
    return [s.update(times[i], [(k, data[k][i]) for k in names]) for i in range(n)]


def expand_unless(f):
    def fn(g):
        if g[0] == 'unless':
            a, b = g[1]
            return N('or', N('always', g[2], ivl=(0, b)), N('until', g[2], g[3], ivl=(a, b)))
        return g
    return lang.map_formula(f, fn)


VARIANTS = ('alias', 'colon', 'extra-parens', 'minimal-parens', 'mix', 'semicolon', 'head', 'ltl', 'unless-expansion')


class C15(Prop):
    id = 'C15'
    rule_added = 'Enumerated: chains of 4 and 5 operands of one binary operator, nested left, right and balanced. The LTL front end also online: pastify() + update() per sample, under sampling periods {1 s, 500 ms, 250 ms, 1000 ms, 2 s, 3 s}, against the STL front end driven the same way. The unless law is also run under another sampling period x default unit. The unless law is also run under an interface-aware semantics with a random io assignment. 36 enumerated two-time-scale spellings (unit suffixes vs plain numbers of the default unit, keywords vs aliases; online and offline).'
    rule = ('a generated formula is printed canonically (keywords, fully parenthesised) and in variant spellings: all '
            'aliases (G F U W S O H X Y sX sY ! & | -> <->), ":" separators, redundant parentheses, parentheses '
            'dropped wherever the grammar precedence/left-associativity makes them redundant (precedence table '
            'transcribed from StlParser.g4), random mixes, trailing ";", assertion head "out =", the LTL front end '
            '(untimed formulas), unless[a,b] replaced by its documented expansion; every variant is evaluated offline '
            '(and online for past formulas) on the same trace and compared with the canonical spelling. distinct = '
            'hash(formula, data); non-trivial = depth>=2 and >=2 distinct binary/prefix operators.')
    assumptions = ['precedence table lang.LEVEL is a transcription of the alternative order in StlParser.g4; prefix '
                   'operators used as right operands stay parenthesised', 'NaN positions are not compared']
    floors = {'quick': (200, 60), 'thorough': (4000, 1000)}
    must_reach = []
    quick_cases = 500
    thorough_cases = 300000
    shrink_data = False

    def gen(self, rng, ctx):
        nv = rng.choice([1, 2, 2, 3])
        c = lang.GenCfg(vars=list(lang.VAR_POOL[:nv]), max_depth=rng.choice([1, 2, 3, 3, 4]), unless=True,
                        max_bound=rng.choice([2, 4]))
        r = rng.random()
        if r < 0.25:
            c.future = False
        if r > 0.8:
            c.timed = False
        if rng.random() < 0.2:
            c.untyped = 0.25
        if rng.random() < 0.15:
            c.transcend = True
        f = lang.gen_formula(rng, c)
        if rng.random() < 0.4:
            f = self.precedence_probe(rng)
        names = lang.variables(f) or [c.vars[0]]
        return {'formula': f, 'data': lang.gen_trace(rng, names, rng.randint(1, 15)), 'vseed': rng.randrange(1 << 30)}

    BIN = ('mul', 'div', 'add', 'sub', 'leq', 'lt', 'geq', 'gt', 'eq', 'neq', 'until', 'unless', 'since', 'and', 'or',
           'implies', 'iff', 'xor')

    def precedence_probe(self, rng):
        """Small formulas that put every pair of operators next to each other (all shapes)."""
        atoms = [lang.V('x'), lang.V('y'), lang.V('z'), lang.C(1.0), lang.C(2.0)]
        at = lambda: rng.choice(atoms)

        def iv(o):
            if o == 'unless' or (o in lang.TIMEABLE and rng.random() < 0.4):
                a = rng.randint(0, 2)
                return (a, rng.randint(a, 3))
            return None

        def bin_(o, l, r):
            if o == 'div':
                r = lang.C(rng.choice([2.0, 4.0, 0.5]))
            return N(o, l, r, ivl=iv(o))

        def pre(o, k):
            return N(o, k, ivl=iv(o))
        b = lambda: rng.choice(self.BIN)
        p = lambda: rng.choice(lang.PREFIX)
        shape = rng.choice('ABCDEFG')
        if shape == 'A':
            return bin_(b(), at(), bin_(b(), at(), at()))
        if shape == 'B':
            return bin_(b(), bin_(b(), at(), at()), at())
        if shape == 'C':
            return pre(p(), bin_(b(), at(), at()))
        if shape == 'D':
            return bin_(b(), pre(p(), at()), at())
        if shape == 'E':
            return bin_(b(), pre(p(), pre(p(), bin_(b(), at(), at()))), at())
        if shape == 'F':
            return bin_(b(), bin_(b(), at(), at()), bin_(b(), at(), at()))
        return bin_(b(), bin_(b(), bin_(b(), at(), at()), at()), pre(p(), bin_(b(), at(), at())))

    def variants(self, f, vseed):
        import random
        out = []
        mk = lambda **kw: lang.Style(rng=random.Random(vseed), **kw)
        out.append(('alias', lang.to_variant(f, mk(alias=1.0))))
        out.append(('colon', lang.to_variant(f, mk(colon=1.0))))
        out.append(('extra-parens', lang.to_variant(f, mk(extra_parens=0.5))))
        out.append(('minimal-parens', lang.to_variant(f, mk(minimal=True))))
        out.append(('mix', lang.to_variant(f, mk(alias=0.5, colon=0.5, minimal=(vseed % 2 == 0),
                                                 extra_parens=0.2))))
        out.append(('mix', lang.to_variant(f, lang.Style(rng=random.Random(vseed + 1), alias=0.7, colon=0.3,
                                                        minimal=True))))
        out.append(('semicolon', lang.to_text(f) + ';'))
        out.append(('head', 'out = ' + lang.to_text(f)))
        if 'unless' in lang.ops_of(f):
            out.append(('unless-expansion', lang.to_text(expand_unless(f))))
        return out

    def unit_pairs(self, f, vseed):
        """(label, sugar text, expansion text): the unless law with the bounds written with unit suffixes
        (the same notation on both sides; period 1 s, default unit s)."""
        import random
        from rtverif.props.c08 import Speller
        out = []
        if 'unless' not in lang.ops_of(f):
            return out
        for mode in ('end-only', 'begin-only', 'both', 'same-suffix'):
            try:
                a = lang.to_text(f, ivl_printer=Speller(random.Random(vseed), 10 ** 9, 's', mode).ivl)
                b = lang.to_text(expand_unless(f), ivl_printer=Speller(random.Random(vseed), 10 ** 9, 's', mode).ivl)
            except ValueError:
                continue
            out.append(('unless-expansion-units:' + mode, a, b, None))
        # the same law under another sampling period and default unit (bounds = the same numbers of samples)
        from rtverif.props.c08 import PERIODS, U
        period = PERIODS[(vseed >> 3) % len(PERIODS)]
        unit = ('s', 'ms', 'us')[(vseed >> 7) % 3]
        from rtverif.props.c08 import period_ns
        P = period_ns(period)
        mode = ('default', 'both', 'same-suffix', 'end-only')[(vseed >> 11) % 4]
        try:
            a = lang.to_text(f, ivl_printer=Speller(random.Random(vseed), P, unit, mode).ivl)
            b = lang.to_text(expand_unless(f), ivl_printer=Speller(random.Random(vseed), P, unit, mode).ivl)
            out.append(('unless-expansion-period:%s%s' % tuple(period), a, b, (period, unit, P)))
        except ValueError:
            pass
        return out

    def judge_ltl_unless(self, case):
        """Untimed `unless` / `W` through the LTL front end, through the STL front end, and as its expansion
        `(always p) or (p until q)`: three executions of the real offline monitor that must agree."""
        v = Verdict()
        v.nontrivial = True
        v.info['variant:ltl-untimed-unless'] = 1
        data, names = case['data'], sorted(case['data'])
        n = len(data[names[0]])
        try:
            exp = drive.values(drive.dt_offline(case['expansion'], names, data, n))
        except Exception as e:
            v.skip = 'expansion raised %s' % type(e).__name__
            return v
        for label, run in (('stl', lambda: drive.values(drive.dt_offline(case['text'], names, data, n))),
                           ('ltl', lambda: drive.values(ltl_spec(case['text'], names).evaluate(drive.dt_dataset(data, n))))):
            try:
                got = run()
            except Exception as e:
                v.bad('variant-raises:%s-untimed-unless' % label, '%s front end on %r raised %s: %s' % (
                    label.upper(), case['text'], type(e).__name__, e))
                continue
            i = next((i for i in range(n) if not refd.same(got[i], exp[i])), None)
            if i is not None:
                v.bad('variant-differs:%s-untimed-unless' % label, '%s front end on %r gives %r at sample %d, the expansion %r '
                      'gives %r; data=%s' % (label.upper(), case['text'], got[i], i, case['expansion'], exp[i], data))
        return v

    def judge(self, case):
        if case.get('ltl_unless'):
            return self.judge_ltl_unless(case)
        v = Verdict()
        f, data = case['formula'], case['data']
        names = sorted(data)
        n = len(data[names[0]])
        text = lang.to_text(f)
        try:
            exp = refd.evaluate(f, data, n)
        except refd.Undefined:
            v.skip = 'reference undefined (domain error)'
            return v
        rel = rel_for(f)
        ops = lang.ops_of(f) - set(['var', 'const'])
        v.nontrivial = lang.depth(f) >= 2 and len(ops) >= 2
        try:
            base = drive.values(drive.dt_offline(text, names, data, n))
        except Exception as e:
            v.skip = 'canonical spelling raised %s' % type(e).__name__
            return v
        online_ok = not lang.has_future(f)
        base_on = None
        if online_ok:
            try:
                base_on = drive.dt_online(text, names, data, n)
            except Exception:
                base_on = None
        for label, vt in self.variants(f, case.get('vseed', 0)):
            v.info['variant:' + label] = v.info.get('variant:' + label, 0) + 1
            try:
                got = drive.values(drive.dt_offline(vt, names + (['out'] if label == 'head' else []), data, n))
            except Exception as e:
                v.bad('variant-raises:' + label, 'variant [%s] %r of %r raised %s: %s' % (
                    label, vt, text, type(e).__name__, e))
                continue
            i = next((i for i in range(n) if exp[i] == exp[i] and not refd.same(got[i], base[i], rel)), None)
            if i is not None:
                v.bad('variant-differs:' + label, 'variant [%s] %r gives %r at sample %d, canonical %r gives %r; '
                      'data=%s' % (label, vt, got[i], i, text, base[i], data))
                continue
            if base_on is not None and label in ('alias', 'minimal-parens', 'mix'):
                try:
                    on = drive.dt_online(vt, names, data, n)
                except Exception as e:
                    v.bad('variant-raises-online:' + label, 'variant [%s] %r raised online %s: %s' % (
                        label, vt, type(e).__name__, e))
                    continue
                i = next((i for i in range(n) if exp[i] == exp[i] and not refd.same(on[i], base_on[i], rel)), None)
                if i is not None:
                    v.bad('variant-differs-online:' + label, 'variant [%s] %r gives %r at update %d, canonical %r '
                          'gives %r' % (label, vt, on[i], i, text, base_on[i]))
        if case.get('vseed', 0) % 8 == 0 and names and not v.viol:
            # the spellings of the assertion head on an object that has grown: it parsed and evaluated an earlier
            # head-less text, then got a sub-specification (which the formula does not use) and the text - without a
            # head, with the head `out =`, with another head, in alias spelling.  An omitted head never changes the result
            heads = [('grown:no-head', text), ('grown:head-out', 'out = ' + text), ('grown:head-res', 'res = ' + text),
                     ('grown:no-head-alias', self.variants(f, case.get('vseed', 0))[0][1])]
            outs = []
            for label, vt in heads:
                try:
                    sp = drive.build_spec('dt', {'text': '(%s >= 1)' % names[0], 'vars': names + ['out', 'res']})
                    sp.parse()
                    sp.evaluate(drive.dt_dataset(data, n))
                    sp.add_sub_spec('q9 = (%s <= 4);' % names[0])
                    sp.spec = vt
                    sp.parse()
                    outs.append((label, vt, drive.values(sp.evaluate(drive.dt_dataset(data, n)))))
                except Exception as e:
                    v.info['grown-object-raised:' + type(e).__name__] = 1
            v.info['variant:grown-object'] = 1
            for label, vt, got in outs:
                i = next((i for i in range(n) if exp[i] == exp[i] and not refd.same(got[i], base[i], rel)), None)
                if i is not None:
                    v.bad('variant-differs:' + label, 'on an object that parsed %r, evaluated, got the sub-specification '
                          '%r and then the text %r: value %r at sample %d, a fresh object on %r gives %r; data=%s' % (
                              '(%s >= 1)' % names[0], 'q9 = (%s <= 4);' % names[0], vt, got[i], i, text, base[i], data))
                    break
        for label, sugar, expansion, cfg in self.unit_pairs(f, case.get('vseed', 0)):
            key = 'variant:' + label.split(':')[0]
            v.info[key] = v.info.get(key, 0) + 1
            sd, times = None, None
            if cfg is not None:
                from fractions import Fraction as Fr
                from rtverif.props.c08 import U
                period, unit, P = cfg
                sd = {'period': (period[0], period[1], 0.1), 'unit': unit}
                times = [float(Fr(i * P, U[unit])) for i in range(n)]
            try:
                a = drive.values(drive.dt_offline(sugar, names, data, n, times=times, sd=sd))
                b = drive.values(drive.dt_offline(expansion, names, data, n, times=times, sd=sd))
            except Exception as e:
                v.bad('variant-raises:' + label, '%r / %r raised %s: %s' % (sugar, expansion, type(e).__name__, e))
                continue
            i = next((i for i in range(n) if exp[i] == exp[i] and not refd.same(a[i], b[i], rel)), None)
            if i is not None:
                v.bad('variant-differs:' + label.split(':')[0], '[%s] %r gives %r at sample %d but its expansion %r '
                      'gives %r; data=%s' % (label, sugar, a[i], i, expansion, b[i], data))
        if 'unless' in ops:
            # the unless law under an interface-aware semantics (both spellings, same io assignment)
            import random
            from rtverif.props.c06 import SEMS, hook_discrete
            r2 = random.Random(case.get('vseed', 0) + 17)
            sem = r2.choice(SEMS[1:])
            io = dict((k, r2.choice(['input', 'output'])) for k in names)
            v.info['variant:unless-expansion-ia'] = 1
            try:
                exp_ia = refd.evaluate(f, data, n, pred_hook=hook_discrete(sem, io))
                sdia = {'semantics': sem, 'io': io}
                a = drive.values(drive.dt_offline(text, names, data, n, sd=sdia))
                b = drive.values(drive.dt_offline(lang.to_text(expand_unless(f)), names, data, n, sd=sdia))
                i = next((i for i in range(n) if exp_ia[i] == exp_ia[i] and not refd.same(a[i], b[i], rel)), None)
                if i is not None:
                    v.bad('variant-differs:unless-expansion-ia', '%r [%s, io=%s] gives %r at sample %d but its expansion '
                          'gives %r; data=%s' % (text, sem, io, a[i], i, b[i], data))
            except refd.Undefined:
                pass
            except Exception as e:
                v.bad('variant-raises:unless-expansion-ia', '%r [%s, io=%s] raised %s: %s' % (text, sem, io,
                                                                                          type(e).__name__, e))
        if all(g[1] is None for g in lang.walk(f)):
            v.info['variant:ltl'] = 1
            try:
                s = ltl_spec(text, names)
                got = drive.values(s.evaluate(drive.dt_dataset(data, n)))
            except Exception as e:
                v.bad('variant-raises:ltl', 'LTL front end on %r raised %s: %s' % (text, type(e).__name__, e))
                return v
            i = next((i for i in range(n) if exp[i] == exp[i] and not refd.same(got[i], base[i], rel)), None)
            if i is not None:
                v.bad('variant-differs:ltl', 'LTL front end on %r gives %r at sample %d, STL front end %r' % (
                    text, got[i], i, base[i]))
            if not v.viol and not lang.has_unbounded_future(f) and not (ops & set(['until'])):
                self.ltl_online_variant(v, f, text, names, data, n, rel, exp)
        return v

    def ltl_online_variant(self, v, f, text, names, data, n, rel, exp):
        """The LTL front end online: pastify() (next/s_next are the only look-ahead of an untimed formula) and one
        update() per sample, under a sampling period that need not be 1 s, with either pastifier class - against the
        STL front end driven the same way, at every update i >= h."""
        import random
        from fractions import Fraction as Fr
        r2 = random.Random(len(text) * 31 + n)
        period = r2.choice([None, (500, 'ms'), (2, 's'), (250, 'ms'), (1000, 'ms'), (3, 's')])
        P = Fr(1) if period is None else Fr(period[0] * {'s': 1000, 'ms': 1}[period[1]], 1000)
        times = [float(i * P) for i in range(n)]
        h = lang.horizon(f)
        v.info['variant:ltl-online%s' % ('' if not h else '-pastified')] = 1
        try:
            want = drive.dt_online(text, names, data, n, times=times, pastify=True,
                                   sd={'period': (period[0], period[1], 0.1)} if period else None)
        except Exception as e:
            return                               # the STL front end itself: C03 / C17
        for stlp in (True,):
            # (only the pastifier class the library itself pairs with its front ends: a bare LtlPastifier is a base
            # class that no specification class of rtamt instantiates)
            try:
                got = ltl_online(text, names, data, n, period, stlp, times)
            except Exception as e:
                v.bad('variant-raises:ltl-online', 'LTL front end (%s, period %s) on %r: pastify()/update() raised %s: %s; '
                      'the STL front end returns normally' % ('StlPastifier' if stlp else 'LtlPastifier', period, text,
                                                              type(e).__name__, e))
                return
            for i in range(h, n):
                if exp[i - h] != exp[i - h]:
                    continue
                if not refd.same(got[i], want[i], rel):
                    v.bad('variant-differs:ltl-online', 'LTL front end (%s, period %s) on %r after pastify(): update #%d '
                          'returns %r, the STL front end %r; data=%s' % ('StlPastifier' if stlp else 'LtlPastifier', period,
                                                                       text, i, got[i], want[i], data))
                    return


    def extra(self, ctx):
        """Exhaustive part: every ordered pair of operators adjacent in every shape (A: b1(a, b2(b,c)),
        B: b1(b2(a,b), c), C: p(b(a,b)), D: b(p(a), b)), one random trace each."""
        import itertools
        rng = ctx.rng
        combos = [('A', o1, o2) for o1 in self.BIN for o2 in self.BIN] + \
                 [('B', o1, o2) for o1 in self.BIN for o2 in self.BIN] + \
                 [('C', o1, o2) for o1 in lang.PREFIX for o2 in self.BIN] + \
                 [('D', o1, o2) for o1 in self.BIN for o2 in lang.PREFIX]
        combos = [c for i, c in enumerate(combos) if i % ctx.nshards == ctx.shard]
        x, y, z = lang.V('x'), lang.V('y'), lang.V('z')
        if ctx.shard == 0:
            # untimed `unless` (the reference has no untimed unless: three real executions are compared)
            for kw in ('unless', 'W'):
                for tmpl, xt in (('(%s) KW (%s)', '((always (%s)) or ((%s) until (%s)))'),
                                 ('not ((%s) KW (%s))', 'not ((always (%s)) or ((%s) until (%s)))'),
                                 ('((%s) KW (%s)) and (z >= 0)', '(((always (%s)) or ((%s) until (%s))) and (z >= 0))'),
                                 ('eventually ((%s) KW (%s))', 'eventually ((always (%s)) or ((%s) until (%s)))')):
                    for p_, q_ in (('x >= 1', 'y <= 0.5'), ('x', 'y'), ('once (x >= 1)', 'y >= 2')):
                        self.check(ctx, {'ltl_unless': True, 'text': tmpl.replace('KW', kw) % (p_, q_),
                                         'expansion': xt % (p_, p_, q_), 'data': lang.gen_trace(rng, ['x', 'y', 'z'], rng.randint(1, 9))})
            ctx.count('untimed-unless-through-both-front-ends', 24)

        def mk(o, *ks):
            iv = None
            if o == 'unless' or (o in lang.TIMEABLE and rng.random() < 0.4):
                a = rng.randint(0, 2)
                iv = (a, rng.randint(a, 3))
            if o == 'div':
                ks = (ks[0], lang.C(2.0))
            return N(o, *ks, ivl=iv)
        done = 0
        for shape, o1, o2 in combos:
            if ctx.out_of_time():
                ctx.notes.append('precedence enumeration stopped by the wall-clock budget after %d combos' % done)
                break
            if shape == 'A':
                f = mk(o1, x, mk(o2, y, z))
            elif shape == 'B':
                f = mk(o1, mk(o2, x, y), z)
            elif shape == 'C':
                f = mk(o1, mk(o2, x, y))
            else:
                f = mk(o1, mk(o2, x), y)
            self.check(ctx, {'formula': f, 'data': lang.gen_trace(rng, ['x', 'y', 'z'], rng.randint(3, 6)),
                             'vseed': rng.randrange(1 << 30)})
            done += 1
        ctx.count('precedence-pairs-enumerated', done)
        # chains: 4 and 5 operands joined by one and the same binary operator, nested to the left, to the right and
        # balanced - printed with the minimal parentheses the grammar's associativity allows (for the direction the
        # grammar groups in: none at all) against the fully parenthesised text.  iff, xor, -, /, implies, since, until
        # are not associative in the quantitative semantics: the grouping matters.
        chains = 0
        w, u = lang.V('w'), lang.V('req')
        for o in self.BIN:
            if (hash(o) if False else self.BIN.index(o)) % ctx.nshards != ctx.shard % max(1, min(ctx.nshards, len(self.BIN))):
                continue
            for ops in ([x, y, z, w], [x, y, z, w, u]):
                if ctx.out_of_time():
                    break
                left = ops[0]
                for k in ops[1:]:
                    left = mk(o, left, k)
                right = ops[-1]
                for k in reversed(ops[:-1]):
                    right = mk(o, k, right)
                bal = mk(o, mk(o, ops[0], ops[1]), mk(o, ops[2], ops[3])) if len(ops) == 4 else \
                    mk(o, mk(o, ops[0], ops[1]), mk(o, ops[2], mk(o, ops[3], ops[4])))
                for f in (left, right, bal):
                    self.check(ctx, {'formula': f, 'data': lang.gen_trace(rng, ['x', 'y', 'z', 'w', 'req'], rng.randint(3, 6)),
                                     'vseed': rng.randrange(1 << 30)})
                    chains += 1
        ctx.count('same-operator-chains-enumerated', chains)
        if ctx.shard == 0:
            self.two_time_scales(ctx)

    def two_time_scales(self, ctx):
        """Two spellings of a two-time-scale specification (default unit ms, period 1 ms): the window bounds written
        with unit suffixes (`[0:2s]` next to `[0:2]`) and written as plain numbers of the default unit (`[0:2000]`
        next to `[0:2]`), with keywords or aliases; online and offline monitors must give the same values."""
        rng = ctx.rng
        kw = {'once': ('once', 'O'), 'historically': ('historically', 'H'), 'since': ('since', 'S')}
        for op in ('once', 'historically', 'since'):
            for b in ((1,) if op == 'since' else (1, 2, 3)):      # (rtamt's bounded since is quadratic in the window)
                for conn, alias in (('and', '&'), ('or', '|')) * 3:
                    n = rng.randint(4, 8) if op == 'since' else rng.randint(6, 14)
                    data = dict((k, [rng.choice(lang.SMALL) for _ in range(n)]) for k in ('x', 'y'))

                    def spell(name, ivl_wide, ivl_narrow, c):
                        if op == 'since':
                            one = lambda iv: '((x >= 1) %s%s (y >= 1))' % (name, iv)
                        else:
                            one = lambda iv: '(%s%s (x >= 1))' % (name, iv)
                        return '(%s %s (not %s))' % (one(ivl_wide), c, one(ivl_narrow))
                    texts = [spell(kw[op][0], '[0:%ds]' % b, '[0:%d]' % b, conn),
                             spell(kw[op][0], '[0:%d]' % (b * 1000), '[0:%d]' % b, conn),
                             spell(kw[op][1], '[0:%ds]' % b, '[0:%dms]' % b, alias),
                             spell(kw[op][1], '[0,%d]' % (b * 1000), '[0,%d]' % b, alias)]
                    sd = {'period': (1, 'ms', 0.1), 'unit': 'ms'}
                    outs = []
                    for t in texts:
                        try:
                            on = drive.dt_online(t, ['x', 'y'], data, n, sd=sd)
                            off = drive.values(drive.dt_offline(t, ['x', 'y'], data, n, sd=sd))
                        except Exception as e:
                            ctx.violation('variant-raises:two-time-scales', '%r raised %s: %s' % (t, type(e).__name__, e),
                                          {'type': 'two-time-scales', 'text': t, 'data': data})
                            outs = None
                            break
                        outs.append((t, on, off))
                    ctx.case({'type': 'two-time-scales', 'op': op, 'b': b, 'conn': conn, 'data': data}, True)
                    ctx.count('variant:two-time-scales', 1)
                    if not outs:
                        continue
                    t0, on0, off0 = outs[0]
                    for t, on, off in outs:
                        if not monitors.same_num(on, on0) or not monitors.same_num(off, off0) or not monitors.same_num(on, off):
                            ctx.violation('variant-differs:two-time-scales', 'spellings of one two-time-scale specification '
                                          'disagree (unit ms, period 1 ms): %r online %s offline %s; %r online %s offline %s; '
                                          'data=%s' % (t0, on0, off0, t, on, off, data),
                                          {'type': 'two-time-scales', 'texts': [t0, t], 'data': data})
                            break


PROP = C15()
