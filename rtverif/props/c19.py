"""C19 — dense-time and discrete-time interpretations agree on grid-aligned step signals."""
from fractions import Fraction as Fr
from rtverif import monitors, lang, drive
from rtverif import ref_discrete as refd
from rtverif import ref_dense
from rtverif.props.base import Prop, Verdict, fmt
from rtverif.props.c01 import rel_for

PERIODS = {'1': (Fr(1), (1, 's', 0.1)), '1/2': (Fr(1, 2), (500, 'ms', 0.1)), '2': (Fr(2), (2, 's', 0.1)),
           '1/4': (Fr(1, 4), (250, 'ms', 0.1))}


def scale_ivl(f, k):
    """Multiply every bound by k (sample counts -> seconds)."""
    return lang.map_formula(f, lambda g: g if (lang.is_leaf(g) or g[1] is None) else
                            (g[0], (g[1][0] * k, g[1][1] * k)) + g[2:])


class C19(Prop):
    id = 'C19'
    rule_added = '25%: another dense-time object is evaluated in between and the first one again (identical result demanded).'
    rule = ('random formulas of the stated fragment (arithmetic, six comparisons, Boolean, once/historically bounded '
            'or not, bounded eventually/always; depth<=4) with bounds that are multiples of the period in {1, 1/2, 2, '
            '1/4} x step signals of 2..20 samples on the grid: the same data go through the real dense-time offline '
            'monitor and the real discrete-time offline monitor (with that sampling period); the dense result sampled '
            'at k*period must equal the discrete result at k for every k with k+h<n. distinct = hash(formula, data, '
            'period); non-trivial = >=1 temporal operator and n-h>=2.')
    assumptions = ['bounds are written in seconds in both specs; the discrete spec gets the period through '
                   'set_sampling_period', 'NaN positions are not compared']
    floors = {'quick': (200, 50), 'thorough': (4000, 1000)}
    must_reach = ['offline/ast_visitor:StlDenseTimeOfflineAstVisitor.visitPredicate',
                  'offline/ast_visitor:StlDiscreteTimeOfflineAstVisitor.visitPredicate']
    quick_cases = 2500
    thorough_cases = 1500000
    shrink_data = False

    def gen(self, rng, ctx):
        nv = rng.choice([1, 2, 2, 3])
        c = lang.GenCfg(vars=list(lang.VAR_POOL[:nv]), max_depth=rng.choice([1, 2, 3, 3, 4]), prevnext=False,
                        events=False, since_until=False, unbounded_future=False, max_bound=rng.choice([2, 4, 6]))
        if rng.random() < 0.15:
            c.untyped = 0.2
        f = lang.gen_formula(rng, c)
        n = rng.randint(2, 20)
        if rng.random() < 0.03:
            # windows of 33..130 samples on traces of 90..180 samples (tiny value alphabet: the extreme value repeats
            # inside one window), period 1
            c.wide, c.max_depth = 0.8, rng.choice([1, 2])
            for _ in range(30):
                f = lang.gen_formula(rng, c)
                if any(g[1] is not None and 32 <= g[1][1] - g[1][0] <= 130 for g in lang.walk(f)) and lang.horizon(f) <= 140:
                    break
            names = lang.variables(f) or [c.vars[0]]
            n = rng.randint(90, 180) + lang.horizon(f)
            return {'formula': f, 'data': dict((k, lang.gen_values(rng, n, rng.choice(['tiny', 'small']))) for k in names),
                    'period': '1', 'again': False}
        names = lang.variables(f) or [c.vars[0]]
        case = {'formula': f, 'data': lang.gen_trace(rng, names, n), 'period': rng.choice(sorted(PERIODS))}
        if rng.random() < 0.12:
            case['useed'] = rng.randrange(1 << 30)
        case['again'] = rng.random() < 0.25
        if rng.random() < 0.12:
            # an interface-aware semantics with a random io assignment on both monitors; data on and around the
            # thresholds of the predicates
            from rtverif.props.c06 import SEMS
            case['ia'] = [rng.choice(SEMS[1:]), dict((k, rng.choice(['input', 'output'])) for k in names)]
            cs = sorted(set(g[2] for g in lang.walk(f) if g[0] == 'const'))[:3] or [1.0]
            alpha = sorted(set(cs + [c + 1 for c in cs] + [c - 1 for c in cs]))
            case['data'] = dict((k, [rng.choice(alpha) for _ in range(n)]) for k in names)
        return case

    def judge(self, case):
        v = Verdict()
        f, data = case['formula'], case['data']
        P, sp = PERIODS[case['period']]
        names = sorted(data)
        n = len(data[names[0]])
        h = lang.horizon(f)                       # in samples
        fs = scale_ivl(f, P)                      # bounds in seconds
        text = lang.to_text(fs)
        if case.get('useed') is not None:
            import random
            text = lang.unit_text(fs, random.Random(case['useed']))      # same durations, unit-suffix notation
            v.info['class:unit-suffixes'] = 1
        iasd, hook = {}, None
        if case.get('ia'):
            from rtverif.props.c06 import hook_discrete
            iasd = {'semantics': case['ia'][0], 'io': case['ia'][1]}
            hook = hook_discrete(*case['ia'])
            v.info['class:interface-aware'] = 1
        try:
            exp = refd.evaluate(f, data, n, pred_hook=hook)
        except refd.Undefined:
            v.skip = 'reference undefined (domain error)'
            return v
        rel = rel_for(f)
        v.nontrivial = lang.has_stateful(f) and n - h >= 2
        v.info['period:' + case['period']] = 1
        sig = dict((k, [(P * i, data[k][i]) for i in range(n)]) for k in names)
        try:
            md = drive.Mon('ct', dict({'text': text, 'vars': list(names)}, **iasd))
            dense = md.evaluate(*drive.ct_args(sig, names))
            if case.get('again'):
                # the requirement-set loop: another dense-time specification is evaluated in between, then this one
                # again on the same data - it must still answer for its own formula
                other = drive.Mon('ct', {'text': '(historically[0,%s] (%s <= 2))' % (lang.num(P), names[0]),
                                         'vars': list(names)})
                other.evaluate(*drive.ct_args(sig, names))
                dense2 = md.evaluate(*drive.ct_args(sig, names))
                v.info['class:evaluated-again-after-another-object'] = 1
                if not monitors.same_num(dense2, dense):
                    v.bad('dense-changes-on-re-evaluation', '%s: the dense-time result changed after another dense-time '
                          'object was evaluated: %s -> %s' % (text, dense[:8], dense2[:8]))
                    return v
        except Exception as e:
            if any(x != x for x in exp):
                # inf - inf somewhere in the formula: NaN makes min/max and the interval bookkeeping of the dense
                # monitor order-dependent (it may emit [[0, nan], [0, v], ..] and then fail on it); nothing is determined
                v.skip = 'raised on a NaN-tainted formula'
                return v
            v.bad('dense-raises:' + type(e).__name__, '%s: dense evaluate raised %s: %s' % (text, type(e).__name__, e))
            return v
        try:
            disc = drive.values(drive.dt_offline(text, names, data, n, times=[float(P * i) for i in range(n)],
                                                 sd=dict({'period': sp}, **iasd)))
        except Exception as e:
            v.bad('discrete-raises:' + type(e).__name__, '%s period=%s: discrete evaluate raised %s: %s' % (
                text, case['period'], type(e).__name__, e))
            return v
        for k in range(max(0, n - h)):
            if exp[k] != exp[k]:
                continue
            dv = ref_dense.out_value(dense, P * k)
            if dv is None or not refd.same(dv, disc[k], rel):
                v.bad('dense!=discrete', '%s period=%s data=%s: at sample %d (t=%s) dense gives %r, discrete %r '
                      '(reference %r); dense=%s' % (text, case['period'], data, k, float(P * k), dv, disc[k], exp[k],
                                                    dense[:10]))
                break
        return v


PROP = C19()
