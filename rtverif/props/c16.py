"""C16 — settled offline results are stable under trace extension."""
from rtverif import lang, drive
from rtverif import ref_discrete as ref
from rtverif.props.base import Prop, Verdict, fmt
from rtverif.props.c01 import rel_for


class C16(Prop):
    id = 'C16'
    rule_added = '4%: traces of 100-220 samples (extension 20-45) under windows of 64-200 samples. 30% of discrete cases under a sampling period p*unit (19 numbers x 3 units), 60% of those after a neighbour object with the same text and a finer period unit was evaluated. Bounds with the unit on both ends, the begin only or the end only. 20%: one object for the trace and its extension, possibly modular and after a call that failed part-way.'
    rule = ('random STL formulas without unbounded future (bounded eventually/always/until/unless, next, all past '
            'operators, Boolean, arithmetic) x a trace w1 (1..25 samples) and an extension w2 of 1..10 adversarial '
            'samples: two fresh offline specs evaluate w1 and w2 and must agree at every t with t+h < |w1| (h computed '
            'by the harness from the formula). Discrete and dense time. distinct = hash(formula, w1, extension); '
            'non-trivial = the extension changes at least one unsettled value or the formula has h>=1, and the '
            'settled region is non-empty.')
    assumptions = ['horizon h is computed by the harness (sum of upper bounds along nested future operators, next=1)',
                   'NaN positions (inf-inf) are not compared']
    floors = {'quick': (300, 80), 'thorough': (5000, 1500)}
    must_reach = ['offline/ast_visitor:StlDiscreteTimeOfflineAstVisitor.visitPredicate']
    quick_cases = 2000
    thorough_cases = 1500000

    def gen_dense(self, rng):
        from fractions import Fraction as Fr
        from rtverif.props.c04 import sig_text
        c = lang.dense_cfg(rng, unbounded_future=False)
        c.max_depth = min(c.max_depth, 3)
        f = lang.gen_formula(rng, c)
        names = lang.variables(f) or [c.vars[0]]
        w1 = lang.gen_signals(rng, names)
        quiet = rng.random() < 0.25
        if quiet:
            # quiet tail: the signals move during an initial stretch only and then hold their values for much longer than
            # any window of the formula (the results of computed operands - stored without repeated values - end long
            # before the recording does); the extension moves them again.  Half of the cases: a bounded past operator
            # directly above a computed operand
            N, V, C = lang.N, lang.V, lang.C
            if rng.random() < 0.5:
                a, b = V(names[0]), V(names[-1])
                opd = rng.choice([N('and', a, b), N('sub', b, a), N('geq', a, C(1.0)), N('or', N('leq', a, C(0.5)), b),
                                  N('abs', N('sub', a, b))])
                lo = Fr(rng.choice([0, 0, 1, 2, 4]), 4)
                iv = (lo, lo + Fr(rng.choice([2, 4, 6, 8, 12]), 4))
                o = rng.choice(['once', 'historically', 'since'])
                f = N(o, N('geq', b, C(0.0)), opd, ivl=iv) if o == 'since' else N(o, opd, ivl=iv)
                if rng.random() < 0.3:
                    f = N(rng.choice(['and', 'or']), f, N('geq', a, C(0.0)))
                names = lang.variables(f)
            w1 = {}
            tail = Fr(rng.choice([16, 24, 40, 60]), 4)
            for k in names:
                s0 = lang.gen_signal(rng, n=rng.choice([2, 3, 4, 5]), start=Fr(0), step=Fr(1, 4))
                s0 = [(t, val) for (t, val) in s0 if t <= Fr(3)] or s0[:1]
                w1[k] = s0 + [(s0[-1][0] + tail, s0[-1][1])]
        w2 = {}
        for k in names:
            t = w1[k][-1][0]
            ext = []
            for _ in range(rng.randint(1, 6)):
                t = t + Fr(rng.choice([1, 2, 3, 4, 8]), 4)
                ext.append((t, rng.choice([-64.0, 64.0]) if rng.random() < 0.5 else rng.choice(lang.SMALL)))
            w2[k] = list(w1[k]) + ext
        return {'dense': True, 'formula': f, 'w1': sig_text(w1), 'w2': sig_text(w2), 'quiet': quiet}

    def judge_dense(self, case):
        from fractions import Fraction as Fr
        from rtverif import ref_dense
        from rtverif.props.c04 import sig_from_json
        v = Verdict()
        f = case['formula']
        w1, w2 = sig_from_json(case['w1']), sig_from_json(case['w2'])
        names = sorted(w1)
        h = lang.horizon(f)
        text = lang.to_text(f)
        try:
            e1, e2 = ref_dense.evaluate(f, w1), ref_dense.evaluate(f, w2)
        except ref.Undefined:
            v.skip = 'reference undefined (domain error)'
            return v
        start = max(s[0][0] for s in w1.values())
        end1 = min(s[-1][0] for s in w1.values())
        hi = end1 - Fr(h)
        v.info['dense'] = 1
        if case.get('quiet'):
            v.info['class:dense-quiet-tail'] = 1
        if hi <= start:
            v.skip = 'empty settled region'
            return v
        rel = rel_for(f)
        try:
            r1 = drive.ct_offline(text, names, w1)
            r2 = drive.ct_offline(text, names, w2)
        except Exception as e:
            if any(x != x for x in e1.vs) or any(x != x for x in e2.vs):
                v.skip = 'raised on a NaN-tainted formula'
                return v
            v.bad('raises:' + type(e).__name__, '%s: dense evaluate raised %s: %s' % (text, type(e).__name__, e))
            return v
        v.nontrivial = h > 0 or lang.has_stateful(f)
        for t in ref_dense.probe_times(e1, list(r1) + list(r2), start, hi):
            if t >= hi:
                continue          # strict: t + h < end of w1
            if e1.at(t) != e1.at(t) or e2.at(t) != e2.at(t):
                continue
            a, b = ref_dense.out_value(r1, t), ref_dense.out_value(r2, t)
            if a is None or b is None or not ref.same(a, b, rel):
                v.bad('unstable', '%s (h=%s) dense: value at t=%s is %r on w1=%s but %r on its extension %s' % (
                    text, h, float(t), a, case['w1'], b, case['w2']))
                break
        return v

    def gen(self, rng, ctx):
        if rng.random() < 0.3:
            return self.gen_dense(rng)
        nv = rng.choice([1, 2, 2, 3])
        c = lang.GenCfg(vars=list(lang.VAR_POOL[:nv]), max_depth=rng.choice([1, 2, 3, 3, 4]),
                        unbounded_future=False, unless=True, max_bound=rng.choice([2, 4, 6]))
        c.wide = 0.0           # (wide windows: only in the long-trace class below; the period classes multiply bounds by 1000)
        if rng.random() < 0.25:
            c.untyped = 0.2
        f = lang.gen_formula(rng, c)
        n1 = rng.randint(1, 25)
        ext = rng.randint(1, 10)
        if rng.random() < 0.04:
            # long traces under wide windows (the window, the trace and the extension are all longer than any block
            # size an implementation might treat specially)
            c.wide, c.max_depth = 0.7, rng.choice([1, 2])
            for _ in range(30):
                f = lang.gen_formula(rng, c)
                if any(g[1] is not None and g[1][1] >= 63 for g in lang.walk(f)) and lang.horizon(f) == 0:
                    break
            n1, ext = rng.randint(100, 220), rng.randint(20, 45)
        names = lang.variables(f) or [c.vars[0]]
        data = lang.gen_trace(rng, names, n1 + ext)
        if rng.random() < 0.5:
            big = rng.choice([-64.0, 64.0])
            for k in names:
                data[k][n1:] = [big if rng.random() < 0.7 else -big for _ in range(ext)]
        case = {'formula': f, 'data': data, 'n1': n1}
        if n1 >= 100:
            return case                 # (no periods / neighbours on top: their windows are 1000 times as many samples)
        if rng.random() < 0.2:
            # one specification object for the trace and for its extension, possibly written as a modular
            # specification and possibly after a call that failed part-way (one variable without numbers)
            case['same_object'] = True
            case['failing_first'] = len(names) >= 2 and rng.random() < 0.6
            if lang.depth(f) >= 2 and rng.random() < 0.6:
                top, defs = lang.decompose(rng, f, rng.randint(1, 3))
                if defs:
                    case['modular'] = {'top': lang.to_jsonable(top), 'defs': [[nm, lang.to_jsonable(g)] for nm, g in defs],
                                       'consts': [], 'style': rng.choice(['one-text', 'subspecs'])}
            return case
        if rng.random() < 0.12:
            # an interface-aware semantics with a random io assignment (same for the trace and its extension);
            # small-integer data so that predicates sit on their thresholds
            from rtverif.props.c06 import SEMS
            case['ia'] = [rng.choice(SEMS[1:]), dict((k, rng.choice(['input', 'output'])) for k in names)]
            cs = sorted(set(g[2] for g in lang.walk(f) if g[0] == 'const'))[:3] or [1.0]
            alpha = sorted(set(cs + [c + 1 for c in cs] + [c - 1 for c in cs]))      # on and around the thresholds
            case['data'] = dict((k, [rng.choice(alpha) for _ in range(n1 + ext)]) for k in names)
            return case
        sugar = 'unless' in lang.ops_of(f)             # expanded by the parser into two operators sharing the bounds
        if rng.random() < (0.6 if sugar else 0.3):
            # a sampling period other than 1 s, bounds written in its unit; and possibly a neighbour: another
            # specification object with the same text and a finer period, evaluated first in the same process
            # (many different numbers: a process-wide memo keyed by the bound text is only wrong for the first user)
            case['period'] = [rng.choice([1, 1, 2, 3, 4, 5, 7, 8, 10, 20, 25, 40, 50, 100, 125, 200, 250, 400, 500]),
                              rng.choice(['s', 'ms', 'us'])]
            case['neighbour'] = rng.random() < 0.6
            case['spell'] = rng.choice(['both', 'both', 'begin-only', 'end-only'] + (['begin-only', 'end-only'] if sugar else []))
            if sugar and case['spell'] != 'both':
                case['period'][1] = 'ms'     # (a mis-read unit then costs a factor 1000 in window length, not 10^6)
        return case

    def judge(self, case):
        if case.get('dense'):
            return self.judge_dense(case)
        v = Verdict()
        f, data, n1 = case['formula'], case['data'], case['n1']
        names = sorted(data)
        n2 = len(data[names[0]])
        if n1 >= n2 or n1 < 1:
            v.skip = 'degenerate after shrinking'
            return v
        h = lang.horizon(f)
        text = lang.to_text(f)
        hook = None
        if case.get('ia'):
            from rtverif.props.c06 import hook_discrete
            hook = hook_discrete(*case['ia'])
        try:
            e1 = ref.evaluate(f, data, n1, pred_hook=hook)
            e2 = ref.evaluate(f, data, n2, pred_hook=hook)
        except ref.Undefined:
            v.skip = 'reference undefined (domain error)'
            return v
        settled = max(0, n1 - h)
        rel = rel_for(f)
        sd, times = None, None
        if case.get('ia'):
            sd = {'semantics': case['ia'][0], 'io': case['ia'][1]}
            v.info['class:interface-aware'] = 1
        if case.get('period'):
            from fractions import Fraction as Fr
            from rtverif.props.c08 import U, dur_in
            p, pu = case['period']
            spell = case.get('spell', 'both')       # which bounds carry the unit suffix (a bare one takes the other's)
            text = lang.to_text(f, ivl_printer=lambda iv: '[%s%s:%s%s]' % (
                dur_in(iv[0] * p * U[pu], pu), pu if spell != 'end-only' else '',
                dur_in(iv[1] * p * U[pu], pu), pu if spell != 'begin-only' else ''))
            v.info['spelling:' + spell] = 1
            sd = {'period': (p, pu, 0.1)}
            times = [float(Fr(i * p * U[pu], U['s'])) for i in range(n2)]
            v.info['period-unit:%s' % pu] = 1
            finer = {'s': 'ms', 'ms': 'us', 'us': 'ns'}[pu]
            heavy = any(g[0] in ('since', 'until', 'unless') and g[1] is not None and g[1][1] > 0 for g in lang.walk(f))
            if case.get('neighbour') and not heavy:
                try:
                    drive.dt_offline(text, names, data, min(n1, 2), times=[float(Fr(i * p * U[finer], U['s']))
                                                                          for i in range(min(n1, 2))],
                                     sd={'period': (p, finer, 0.1)})
                    v.info['neighbour-specs'] = 1
                except Exception:
                    pass
        # a third of the cases on the offline-only class
        okind = 'dt_off' if (len(text) + n1) % 3 == 0 else 'dt'
        v.info['class:' + ('offline-only-class' if okind == 'dt_off' else 'combined-class')] = 1
        try:
            if case.get('same_object'):
                sdo = {'text': text, 'vars': list(names)}
                if case.get('modular'):
                    from rtverif.props.c09 import modular_sd
                    sdo = modular_sd(case['modular'], list(names))
                    v.info['class:modular'] = 1
                mo = drive.Mon(okind, sdo)
                v.info['class:same-object'] = 1
                if case.get('failing_first'):
                    bad = drive.dt_dataset(data, n2)
                    bad[names[-1]] = [None] * n2
                    try:
                        mo.evaluate(bad)
                    except Exception:
                        v.info['failing-call-first'] = 1
                r1 = drive.values(mo.evaluate(drive.dt_dataset(data, n1)))
                r2 = drive.values(mo.evaluate(drive.dt_dataset(data, n2)))
            else:
                r1 = drive.values(drive.dt_offline(text, names, data, n1, times=times and times[:n1], sd=sd, kind=okind))
                r2 = drive.values(drive.dt_offline(text, names, data, n2, times=times, sd=sd, kind=okind))
        except Exception as e:
            v.bad('raises:' + type(e).__name__, '%s: evaluate raised %s: %s' % (text, type(e).__name__, e))
            return v
        v.nontrivial = settled >= 1 and (h >= 1 or any(not ref.same(a, b) for a, b in zip(e1, e2[:n1])))
        v.info['h:%s' % min(h, 5)] = 1
        for t in range(settled):
            if e1[t] != e1[t] or e2[t] != e2[t]:
                continue
            if not ref.same(r1[t], r2[t], rel):
                v.bad('unstable', '%s (h=%d) data=%s: value at t=%d is %r on the %d-sample trace but %r on its '
                      '%d-sample extension' % (text, h, data, t, r1[t], n1, r2[t], n2))
                break
        return v

    shrink_data = False

    def shrinkable(self, case):
        return 'formula' in case and not case.get('modular')


PROP = C16()
