"""C07 — robustness sign and magnitude are sound w.r.t. Boolean satisfaction."""
from fractions import Fraction as Fr
from rtverif import lang, drive, ref_bool
from rtverif import ref_discrete as refd
from rtverif import ref_dense
from rtverif.props.base import Prop, Verdict, fmt
from rtverif.props.c04 import sig_text, sig_from_json

KINDS = ('dt_off', 'dt_off', 'dt_on', 'ct_off', 'ct_on', 'dt_on_pastified')
FACTORS = (0.25, 0.5, 0.75, 0.99)
INF = float('inf')


def perturbations(rng, shape, rho, count):
    """Lists of deltas with |delta| < |rho| for every sample: corners first, then random interior points."""
    m = abs(rho)
    out = []
    big = 0.99 * m
    out.append([big] * shape)
    out.append([-big] * shape)
    out.append([big if i % 2 == 0 else -big for i in range(shape)])
    out.append([-big if i % 2 == 0 else big for i in range(shape)])
    while len(out) < count:
        out.append([rng.choice(FACTORS) * m * rng.choice([-1, 1]) for _ in range(shape)])
    return out[:count]


class C07(Prop):
    id = 'C07'
    rule_added = 'Sixth kind: discrete online after pastify() (update #i speaks about time i-h on the trace seen so far; sign part only; 30% after an earlier run and reset()). 30% of the discrete online cases run on an object that served another trace and was reset(). 35% of the online cases with duplicated sub-formulas. 25% of the dense online cases feed the inputs as fields of one object-typed variable.'
    rule = ('random iff/xor-free, Boolean-typed formulas (predicates over arithmetic terms; Boolean, rise/fall, '
            'past/future operators) on the 4 monitor kinds (online kinds on the past fragment): (1) every returned '
            'value >0 (<0) is checked against an independent Boolean evaluator: the formula must be satisfied '
            '(violated) at that time; (2) when every predicate compares one variable with a constant, 8 (quick) / 32 '
            '(thorough) perturbed traces with |delta| < |rho| per sample (all-plus, all-minus, alternating corners at '
            '0.99|rho| and random interior points) must receive the same Boolean verdict at that time. distinct = '
            'hash(case); non-trivial = some returned value is finite and non-zero.')
    assumptions = ['Boolean semantics = two-point-lattice evaluation in rtverif/ref_bool.py with the same boundary '
                   'conventions (weak prev true at 0, empty bounded window false for eventually/once, true for '
                   'always/historically)', 'values 0, +-inf and NaN make no claim',
                   'perturbations are sampled (corners + interior), not the whole ball']
    floors = {'quick': (200, 60), 'thorough': (4000, 1000)}
    must_reach = []
    quick_cases = 1500
    thorough_cases = 1000000
    shrink_data = False

    def gen(self, rng, ctx):
        kind = rng.choice(KINDS)
        simple = rng.random() < 0.6              # var-vs-const predicates only -> perturbation part applies
        if kind.startswith('dt'):
            c = lang.GenCfg(vars=list(lang.VAR_POOL[:rng.choice([1, 2, 3])]), max_depth=rng.choice([1, 2, 3, 4]),
                            iffxor=False, unless=True, max_bound=rng.choice([2, 4, 6]), const_pred=0.0)
        else:
            c = lang.dense_cfg(rng, iffxor=False, const_pred=0.0)
        if kind == 'dt_on_pastified':
            c.unbounded_future = False
            c.max_bound = rng.choice([1, 2, 3])
            c.max_depth = min(c.max_depth, 3)
        if kind.endswith('_on'):
            c.future = False
            if rng.random() < 0.35:
                c.dup = 0.4               # the same stateful sub-formula written twice (one shared online operation)
        if simple:
            c.arith = False
        for _ in range(200):
            f = lang.gen_formula(rng, c)
            if ref_bool.boolean_typed(f) and (not simple or ref_bool.var_vs_const_only(f)) and (
                    kind != 'dt_on_pastified' or 0 < lang.horizon(f) <= 8):
                break
        else:
            f = lang.N('geq', lang.V('x'), lang.C(1.0))
        if kind == 'dt_on_pastified' and rng.random() < 0.5 and lang.has_future(f):
            # a past operator above the look-ahead: after pastify() it starts when its operand does
            o = rng.choice(['historically', 'once', 'historically', 'once', 'prev', 's_prev'])
            f = lang.N(o, f) if (o in ('prev', 's_prev') or rng.random() < 0.6) else lang.N(o, f, ivl=(0, rng.randint(1, 3)))
        if kind == 'dt_on_pastified' and rng.random() < 0.2:
            # a bounded past operator beside a sibling that looks further ahead: pastify() has to delay the past
            # operator by the sibling's horizon (a delay, not a shifted window - for `since` the two differ)
            N, V, C = lang.N, lang.V, lang.C
            vs = list(lang.VAR_POOL[:3])
            pr = lambda: N(rng.choice(['geq', 'leq', 'gt', 'lt']), V(rng.choice(vs)), C(rng.choice([0.0, 1.0, -1.0, 0.5])))
            a = rng.randint(0, 2)
            iv = (a, a + rng.randint(0, 3))
            o = rng.choice(['since', 'since', 'since', 'once', 'historically'])
            past = N('since', pr(), pr(), ivl=rng.choice([iv, iv, None])) if o == 'since' else N(o, pr(), ivl=iv)
            b = rng.randint(0, 2)
            fut = N(rng.choice(['eventually', 'always']), pr(), ivl=(b, b + rng.randint(1, 3)))
            if rng.random() < 0.3:
                fut = N('next', fut)
            f = N(rng.choice(['and', 'or', 'implies']), *rng.sample([past, fut], 2))
            if rng.random() < 0.3:
                f = N(rng.choice(['always', 'eventually']), f, ivl=(0, rng.randint(1, 2)))
            if rng.random() < 0.2:
                f = N('not', f)
        band = None
        if kind in ('dt_off', 'dt_on', 'ct_off', 'ct_on') and rng.random() < 0.04:
            # a narrow band between two constants that agree in many leading digits (1e-11 apart near 0.5, or 0.2 apart
            # at epoch size): `(x >= c1) and not (x >= c2)` with samples inside, below and above the band
            N, V, C = lang.N, lang.V, lang.C
            c1, d = rng.choice([(0.5, 1e-11), (2.0, 4e-12), (1700000000.25, 0.25), (1758800000.0, 0.5), (0.5, 1e-7)])
            lo, hi = N(rng.choice(['geq', 'gt']), V('x'), C(c1)), N(rng.choice(['geq', 'gt']), V('x'), C(c1 + d))
            f = N('and', lo, N('not', hi)) if rng.random() < 0.6 else N('or', N('not', lo), hi)
            if rng.random() < 0.3 and kind != 'ct_on':
                f = N(rng.choice(['once', 'historically']), f, ivl=(0, 1))
            band = [c1 + d / 2, c1 - d, c1 + 2 * d, c1 + d / 4, c1 - 3 * d]
        wide = kind in ('dt_off', 'dt_on') and rng.random() < 0.04
        if wide:
            # windows of 33..130 samples on traces of 100..170 samples
            c.wide, c.max_depth, c.unbounded_future = 0.8, rng.choice([1, 2]), False
            for _ in range(40):
                f = lang.gen_formula(rng, c)
                if ref_bool.boolean_typed(f) and any(g[1] is not None and g[1][1] - g[1][0] >= 32 for g in lang.walk(f)) \
                        and (not simple or ref_bool.var_vs_const_only(f)):
                    break
        names = lang.variables(f) or ['x']
        case = {'formula': f, 'kind': kind, 'pseed': rng.randrange(1 << 30)}
        if rng.random() < 0.1:
            case['useed'] = rng.randrange(1 << 30)
        if kind.startswith('dt'):
            case['data'] = lang.gen_trace(rng, names, rng.randint(1, 16))
            if band:
                case['data'] = dict((k, [rng.choice(band) for _ in range(rng.randint(2, 10))]) for k in names)
                case['band'] = True
            if wide:
                n7 = rng.randint(100, 170)
                case['data'] = dict((k, lang.gen_values(rng, n7, rng.choice(['tiny', 'small']))) for k in names)
            if kind == 'dt_on_pastified':
                case['data'] = lang.gen_trace(rng, names, rng.randint(1, 14) + min(lang.horizon(f), 8))
            if kind in ('dt_on', 'dt_on_pastified') and rng.random() < (0.3 if kind == 'dt_on' else 0.6):
                case['prelude'] = lang.gen_trace(rng, names, rng.randint(1, 10))   # an earlier run, then reset()
        else:
            sig = lang.gen_signals(rng, names)
            if kind == 'ct_on':
                base = lang.gen_signal(rng, n=rng.randint(2, 8), start=Fr(0))
                sig = dict((k, [(t, rng.choice(lang.SMALL)) for (t, _) in base]) for k in names)
            if band:
                base = lang.gen_signal(rng, n=rng.randint(2, 8), start=Fr(0))
                sig = dict((k, [(t, rng.choice(band)) for (t, _) in base]) for k in names)
                case['band'] = True
            case['signals'] = sig_text(sig)
        case['nperturb'] = 8 if (ctx is None or ctx.tier == 'quick') else 32
        case['structs'] = kind == 'ct_on' and rng.random() < 0.25
        if kind.startswith('dt') and not case.get('prelude') and case.get('useed') is None and rng.random() < 0.12:
            case['ia'] = [rng.choice(['output_robustness', 'input_robustness']),
                          dict((k, rng.choice(['input', 'output'])) for k in names)]
            cs = sorted(set(g[2] for g in lang.walk(f) if g[0] == 'const'))[:3] or [1.0]
            alpha = sorted(set(cs + [c + 1 for c in cs] + [c - 1 for c in cs]))
            case['data'] = dict((k, [rng.choice(alpha) for _ in range(len(case['data'][names[0]]))]) for k in names)
        return case

    # -- one execution of the real monitor: list of (time, value) claims ------------------------------
    _structs = False
    _iasd = None

    def run_real(self, kind, text, names, data=None, sig=None, prelude=None):
        if kind == 'dt_off':
            res = drive.values(drive.dt_offline(text, names, data, sd=self._iasd))
            return [(t, v) for t, v in enumerate(res)]
        if kind == 'dt_on':
            res = drive.dt_online(text, names, data, prelude=prelude, sd=self._iasd)
            return [(t, v) for t, v in enumerate(res)]
        if kind == 'dt_on_pastified':
            # update #i speaks about time i-h on the trace seen so far; the claim is indexed by the update
            res = drive.dt_online(text, names, data, prelude=prelude, sd=self._iasd, pastify=True)
            return [(i, v) for i, v in enumerate(res) if i >= self._h]
        if kind == 'ct_off':
            out = drive.ct_offline(text, names, sig)
        else:
            m = drive.Mon('ct', dict({'text': text, 'vars': names}, **({'structify': True} if self._structs else {})))
            n = len(sig[names[0]])
            half = max(1, n // 2)
            out = []
            for a, b in ((0, half), (half, n)):
                if a < b:
                    out += m.update(*[[k, [[float(t), v] for t, v in sig[k][a:b]]] for k in names])
        return out

    def judge(self, case):
        import random
        v = Verdict()
        f, kind = case['formula'], case['kind']
        if not ref_bool.boolean_typed(f):
            v.skip = 'not Boolean-typed'
            return v
        text = lang.to_text(f)
        if case.get('useed') is not None:
            import random
            text = lang.unit_text(f, random.Random(case['useed']))       # same durations, unit-suffix notation
            v.info['class:unit-suffixes'] = 1
        dense = kind.startswith('ct')
        rng = random.Random(case.get('pseed', 0))
        v.info['kind:' + kind] = 1
        if case.get('band'):
            v.info['class:narrow-band-between-near-constants'] = 1
        self._iasd = None
        if case.get('ia') and not dense:
            # interface-aware *robustness* semantics: an overridden predicate is +-inf by its truth value, so the sign
            # of every returned value still has to agree with the Boolean verdict (the magnitude part does not apply)
            self._iasd = {'semantics': case['ia'][0], 'io': case['ia'][1]}
            v.info['class:interface-aware'] = 1
        if not dense:
            data = case['data']
            names = sorted(data)
            n = len(data[names[0]])
            self._h = lang.horizon(f)
            if kind == 'dt_on_pastified' and not (0 < self._h <= 8 and not lang.has_unbounded_future(f)):
                v.skip = 'not a bounded-future formula'
                return v
            try:
                sat = ref_bool.sat_discrete(f, data, n)
                claims = self.run_real(kind, text, names, data=data, prelude=case.get('prelude'))
                if case.get('prelude'):
                    v.info['class:after-reset'] = 1
            except refd.Undefined:
                v.skip = 'reference undefined (domain error)'
                return v
            except Exception as e:
                v.skip = 'monitor raised %s' % type(e).__name__
                return v
            probe = lambda t: sat[t]
            if kind == 'dt_on_pastified':
                h7 = self._h
                probe = lambda i: ref_bool.sat_discrete(f, dict((kk, data[kk][:i + 1]) for kk in names), i + 1)[i - h7]
        else:
            sig = sig_from_json(case['signals'])
            names = sorted(sig)
            start = max(s[0][0] for s in sig.values())
            end = min(s[-1][0] for s in sig.values())
            try:
                satf = ref_bool.sat_dense(f, sig)
                self._structs = bool(case.get('structs')) and kind == 'ct_on'
                if self._structs:
                    v.info['class:struct-inputs'] = 1
                out = self.run_real(kind, text, names, sig=sig)
            except refd.Undefined:
                v.skip = 'reference undefined (domain error)'
                return v
            except Exception as e:
                v.skip = 'monitor raised %s' % type(e).__name__
                return v
            fin = [s for s in out if s[0] == s[0] and abs(s[0]) != INF]
            if not fin:
                v.skip = 'no output'
                return v
            lo, hi = max(start, ref_dense.Q(fin[0][0])), min(end, ref_dense.Q(fin[-1][0]))
            if hi < lo:
                v.skip = 'output outside the domain'
                return v
            claims = [(t, ref_dense.out_value(out, t)) for t in ref_dense.probe_times(satf, out, lo, hi)]
            probe = lambda t: satf.at(t) > 0
        known = None
        if dense and set(s[0][0] for s in sig.values()) != set([0]):
            from rtverif import findings
            known = (findings.c04_attribution(f, sig, 'value', None, None) if kind == 'ct_off' else
                     findings.c05_origin(f, sig, dict((k, []) for k in names)))
        usable = []
        for t, rho in claims:
            if rho is None or rho != rho or rho == 0:
                continue
            s = probe(t)
            if rho > 0 and not s:
                v.bad('positive-but-violated', '%s [%s] %s: value %r at t=%s but the formula is violated there' % (
                    text, kind, case.get('data') or case.get('signals'), rho, float(t)), known)
                return v
            if rho < 0 and s:
                v.bad('negative-but-satisfied', '%s [%s] %s: value %r at t=%s but the formula is satisfied there' % (
                    text, kind, case.get('data') or case.get('signals'), rho, float(t)), known)
                return v
            if abs(rho) != INF:
                usable.append((t, rho, s))
        v.nontrivial = bool(usable)
        v.info['claims'] = len(usable)
        if not usable or not ref_bool.var_vs_const_only(f) or self._iasd or kind == 'dt_on_pastified':
            return v
        v.info['perturbed-cases'] = 1
        k = case.get('nperturb', 8)
        for j in range(k):
            t, rho, s = usable[rng.randrange(len(usable))]
            if not dense:
                ds = perturbations(rng, n, rho, 5)[j % 5 if j < 4 else 4]
                pd = dict((kk, [x + ds[i] * (1 if (i + len(kk)) % 2 == 0 or j < 2 else -1) for i, x in
                                enumerate(data[kk])]) for kk in names)
                s2 = ref_bool.sat_discrete(f, pd, n)[t]
                shown = pd
            else:
                psig = {}
                for kk in names:
                    ds = perturbations(rng, len(sig[kk]), rho, 5)[j % 5 if j < 4 else 4]
                    psig[kk] = [(tt, x + ds[i]) for i, (tt, x) in enumerate(sig[kk])]
                s2 = ref_bool.sat_dense(f, psig).at(t) > 0
                shown = sig_text(psig)
            v.info['perturbations'] = v.info.get('perturbations', 0) + 1
            if s2 != s:
                v.bad('magnitude-unsound', '%s [%s]: robustness %r at t=%s (verdict %s) but the trace %s, which differs '
                      'from %s by less than %r everywhere, has verdict %s' % (
                          text, kind, rho, float(t), s, shown, case.get('data') or case.get('signals'), abs(rho), s2),
                      known)
                return v
        return v


PROP = C07()
