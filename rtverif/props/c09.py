"""C09 — modular specifications are equivalent to their inlined form."""
from fractions import Fraction as Fr
from rtverif import lang, drive
from rtverif import ref_discrete as refd
from rtverif import ref_dense
from rtverif.props.base import Prop, Verdict, fmt
from rtverif.props.c01 import rel_for
from rtverif.props.c02 import past_cfg
from rtverif.props.c03 import bf_cfg
from rtverif.props.c04 import sig_text, sig_from_json

KINDS = ('dt_off', 'dt_on', 'dt_on_pastified', 'ct_off', 'ct_on')


class BoundConsts(object):
    """Interval printer of the modular form when case['bound_consts'] is set: `[a ms:tK]` with a declared constant
    tK for the upper bound (a bare constant next to a suffixed bound counts in the unit of that bound)."""

    def __init__(self):
        self.consts = []

    def ivl(self, i):
        a, b = i
        if b <= 0:
            return '[%sms:%sms]' % (lang.num(a * 1000), lang.num(b * 1000))
        nm = 't%d' % len(self.consts)
        self.consts.append((nm, 'float', lang.num(b * 1000)))
        return '[%sms:%s]' % (lang.num(a * 1000), nm)


def ms_ivl(i):
    """Printer of the sibling-unit class: bounds below 1/10 s are written in ms, the others in s, so that
    (0, 2) and (0, 2/1000) become `[0:2s]` and `[0:2ms]` - the same numerals, another unit."""
    a, b = i
    if b < Fr(1, 10) and (Fr(b) * 1000).denominator == 1 and (Fr(a) * 1000).denominator == 1:
        return '[%s:%sms]' % (lang.num(Fr(a) * 1000), lang.num(Fr(b) * 1000))
    return '[%s:%ss]' % (lang.num(a), lang.num(b))


def text_of(case, g):
    return lang.to_text(g, ivl_printer=ms_ivl) if case.get('ms_printer') else lang.to_text(g)


def inlined_ivl(i):
    return '[%sms:%s]' % (lang.num(i[0] * 1000), lang.num(i[1] * 1000))


def commented(case, texts):
    """Comments around the sub-specification texts (documentation of a requirement): a trailing `// ...` line
    comment, a leading or trailing `/* ... */` block comment.  Comments are not part of the specification."""
    seed = case.get('comments')
    if seed is None:
        return texts
    import random
    r = random.Random(seed)
    out = []
    for t in texts:
        k = r.random()
        if k < 0.45:
            t = t + ' // ' + r.choice(['x was high recently', 'requirement 4.2; see above', 'out = x'])
        elif k < 0.6:
            t = '/* ' + r.choice(['helper', 'a = b;']) + ' */ ' + t
        elif k < 0.7:
            t = t + ' /* trailing */'
        out.append(t)
    return out


def modular_sd(case, names):
    """Specification dict of the modular form."""
    top = lang.from_jsonable(case['top'])
    defs = [(nm, lang.from_jsonable(g)) for nm, g in case['defs']]
    consts = [(nm, 'float', lang.num(val)) for nm, val in case['consts']]
    if case.get('bound_consts'):
        bc = BoundConsts()
        texts = commented(case, ['%s = %s;' % (nm, lang.to_text(g, ivl_printer=bc.ivl)) for nm, g in defs])
        declared = list(names)
        if case.get('declare_names', True):
            declared += [nm for nm, _ in defs] + ['out']
        top_text = lang.to_text(top, ivl_printer=bc.ivl)
        sd = {'vars': declared, 'consts': consts + bc.consts}
        if case.get('style') == 'one-text':
            sd['text'] = '\n'.join(texts + ['out = %s;' % top_text])
        else:
            sd['subspecs'] = texts
            sd['text'] = 'out = %s;' % top_text
        return sd
    texts = commented(case, ['%s = %s;' % (nm, text_of(case, g)) for nm, g in defs])
    declared = list(names)
    if case.get('declare_names', True):
        declared += [nm for nm, _ in defs] + ['out']
    sd = {'vars': declared, 'consts': consts}
    if case.get('style') == 'one-text':
        sd['text'] = '\n'.join(texts + ['out = %s;' % text_of(case, top)])
    else:
        sd['subspecs'] = texts
        sd['text'] = 'out = %s;' % text_of(case, top)
        if case.get('redefined') and names:
            sd['earlier_subspecs'] = [('%s = (%s >= 1);' % (nm, names[0])) if flag else t
                                      for (nm, _), t, flag in zip(defs, texts, case['redefined'])]
    return sd


def inlined_formula(case):
    top = lang.from_jsonable(case['top'])
    defs = [(nm, lang.from_jsonable(g)) for nm, g in case['defs']]
    f = lang.inline(top, defs)
    for nm, val in case['consts']:
        f = lang.subst_var(f, nm, lang.C(val))
    return f


def gen_modular(rng, kind):
    if kind == 'dt_off':
        c = lang.GenCfg(vars=list(lang.VAR_POOL[:rng.choice([1, 2, 3])]), max_depth=rng.choice([2, 3, 4]),
                        max_bound=rng.choice([2, 4, 6]))
    elif kind == 'dt_on':
        c = past_cfg(rng)
        c.max_depth = max(2, min(c.max_depth, 4))
        c.transcend = False
    elif kind == 'dt_on_pastified':
        c = bf_cfg(rng)
        c.max_depth = max(2, min(c.max_depth, 3))
        c.transcend = False
    elif kind == 'ct_off':
        c = lang.dense_cfg(rng)
        c.max_depth = max(2, c.max_depth)
    else:
        c = lang.dense_cfg(rng, future=False)
        c.max_depth = max(2, min(c.max_depth, 3))
    if rng.random() < 0.4:
        c.dup = 0.35                       # makes a chosen sub-formula occur (be referenced) several times
    for _ in range(100):
        f = lang.gen_formula(rng, c)
        if lang.depth(f) >= 2 and (kind != 'dt_on_pastified' or lang.horizon(f) <= 8):
            break
    top, defs = lang.decompose(rng, f, rng.randint(1, 4))
    if len(defs) >= 1 and rng.random() < 0.08:
        # the output assertion merely names an earlier sub-specification, with another assertion in between
        # (`sa = ...; sb = ...; out = sa`): the whole former top formula becomes one more definition
        defs = defs + [('sz', top)]
        other = lang.N('geq', lang.V(lang.variables(f)[0] if lang.variables(f) else 'x'), lang.C(1.0))
        defs = defs + [('sy', other)]
        top = lang.V('sz')
        return f, top, defs, []
    top, consts = lang.lift_constants(rng, top, 0.4)
    if rng.random() < 0.2:
        # named assertions that nothing refers to (a requirement monitored alongside): they disappear from the
        # inlined form and must not influence the output - whatever their own state or look-ahead
        import copy
        c2 = copy.copy(c)
        c2.dup, c2.max_depth = 0.0, rng.choice([1, 2, 2])
        c2.vars = lang.variables(f) or ['x']          # (only variables the data set carries)
        if kind == 'dt_on_pastified':
            c2.max_bound = 8
        defs = list(defs)
        for k in range(rng.randint(1, 2)):
            for _ in range(50):
                g = lang.gen_formula(rng, c2)
                if kind != 'dt_on_pastified' or lang.horizon(g) <= 10:
                    break
            else:
                continue
            if kind == 'dt_on_pastified' and rng.random() < 0.6:
                g = lang.N(rng.choice(['eventually', 'always']), g, ivl=(0, lang.horizon(f) + rng.randint(1, 3)))
            defs.insert(rng.randint(0, len(defs)), ('su%d' % k, g))
    return f, top, defs, consts


class C09(Prop):
    id = 'C09'
    rule_added = "5% with a named constant as an assertion of its own. 15% with comments around the sub-specification texts (trailing // line comments, block comments). 20% with 1-2 named assertions that nothing refers to (after pastify() often with a longer look-ahead than the output). 15% with declared constants as interval bounds next to a suffixed begin; dense: 12% two named assertions whose intervals differ only in the unit. 15% under an interface-aware semantics on both forms; 6% C06's shared-term template."
    rule = ('a generated formula is decomposed at random into 1..4 named sub-specifications (nested, every occurrence '
            'of a chosen sub-formula replaced, so some are referenced 2-3 times; stateful sub-specs included) and up to '
            '2 declared constants; the modular spec (add_sub_spec or several assertions in one text) and the inlined '
            'text are run on the same data by the same monitor kind {discrete offline, discrete online, discrete '
            'online after pastify, dense offline, dense online} and every returned value is compared. distinct = '
            'hash(case); non-trivial = some sub-spec is stateful or referenced >=2 times.')
    assumptions = ['inlining is done by the harness (the original formula the decomposition started from)',
                   'dense results are compared as step functions on the common domain']
    floors = {'quick': (200, 60), 'thorough': (4000, 1000)}
    must_reach = []
    quick_cases = 1500
    thorough_cases = 800000

    def shrinkable(self, case):
        return False

    def gen_sibling(self, rng, kind):
        """Two named assertions over the same operand whose intervals have the same numerals and another unit
        (`recent = once[0:2ms](p); steady = once[0:2s](p)`), dense time."""
        p = lang.N(rng.choice(['geq', 'leq', 'gt', 'lt']), lang.V('x'), lang.C(rng.choice([0.0, 1.0, 2.0])))
        op = rng.choice(['once', 'historically'])
        b = rng.choice([1, 2, 3])
        a = rng.choice([0, 0, 1]) if b > 1 else 0
        wide, narrow = lang.N(op, p, ivl=(Fr(a), Fr(b))), lang.N(op, p, ivl=(Fr(a, 1000), Fr(b, 1000)))
        defs = rng.sample([('sa', wide), ('sb', narrow)], 2)
        defs = [('sa', defs[0][1]), ('sb', defs[1][1])]
        top = lang.N(rng.choice(['or', 'and', 'implies']), lang.V('sa'), lang.N('not', lang.V('sb')))
        base = lang.gen_signal(rng, n=rng.randint(4, 9), start=Fr(0))
        sig = {'x': [(t, rng.choice(lang.SMALL)) for (t, _) in base]}
        return {'kind': kind, 'top': lang.to_jsonable(top), 'defs': [(nm, lang.to_jsonable(g)) for nm, g in defs],
                'consts': [], 'style': rng.choice(['add_sub_spec', 'one-text']), 'declare_names': True,
                'ms_printer': True, 'signals': sig_text(sig)}

    def gen(self, rng, ctx):
        kind = rng.choice(KINDS)
        if kind in ('ct_on', 'ct_off') and rng.random() < 0.12:
            return self.gen_sibling(rng, kind)
        if rng.random() < 0.1:
            # C06's shared-term template: a named arithmetic sub-formula used in a predicate that also mentions a
            # variable of the other io class, and again in a predicate of its own; interface-aware semantics
            from rtverif.props.c06 import PROP as C06P
            c6 = C06P.gen_shared_term(rng)
            case = {'kind': c6['kind'], 'top': c6['modular']['top'], 'defs': [tuple(d) for d in c6['modular']['defs']],
                    'consts': [], 'style': rng.choice(['add_sub_spec', 'one-text']), 'declare_names': True,
                    'ia': [c6['sem'], c6['io']]}
            case['signals' if c6['kind'].startswith('ct') else 'data'] = c6.get('signals') or c6.get('data')
            return case
        f, top, defs, consts = gen_modular(rng, kind)
        if rng.random() < 0.05:
            # a named constant (or constant term) as an assertion of its own, referred to once or twice:
            # `sa = 3; out = (x > sa) and (y > sa);`
            cterm = rng.choice([lang.C(3.0), lang.C(0.5), lang.N('add', lang.C(1.0), lang.C(2.0))])
            p1 = lang.N(rng.choice(['gt', 'geq', 'leq']), lang.V('x'), lang.V('sa'))
            p2 = lang.N(rng.choice(['gt', 'geq', 'leq']), lang.V('y'), rng.choice([lang.V('sa'), lang.N('add', lang.V('sa'), lang.C(1.0)), lang.C(1.0)]))
            top = rng.choice([p1, lang.N(rng.choice(['and', 'or']), p1, p2)])
            if kind.endswith('_on') and rng.random() < 0.5:
                top = lang.N('once', top)
            defs, consts = [('sa', cterm)], []
            f = lang.inline(top, defs)
        if rng.random() < 0.02:
            # many named assertions (9..33), each built on the one before: `s1 = p1; s2 = (s1 and p2); ...; out = sK or s1`
            N, V, C = lang.N, lang.V, lang.C
            K = rng.choice([9, 17, 33])
            vs = ['x', 'y']
            pr = lambda: N(rng.choice(['geq', 'leq']), V(rng.choice(vs)), C(rng.choice([0.0, 1.0, -1.0, 2.0])))
            past = ['once', 'historically'] if not kind.startswith('ct') else ['once', 'historically']
            defs = [('s1', pr())]
            for i in range(2, K + 1):
                prev_ = V('s%d' % (i - 1))
                r = rng.random()
                if r < 0.5:
                    g = N(rng.choice(['and', 'or', 'implies']), *rng.sample([prev_, pr()], 2))
                elif r < 0.8:
                    g = N(rng.choice(past), prev_, ivl=(0, rng.choice([1, 2])))
                else:
                    g = N('not', prev_)
                defs.append(('s%d' % i, g))
            top = N(rng.choice(['or', 'and']), V('s%d' % K), V('s1'))
            consts = []
            f = lang.inline(top, defs)
        if rng.random() < 0.02:
            # a wide main assertion: 20..90 conjuncts/disjuncts (named operations) before the reference to a sub-
            # specification with a stateful operator (what a bounded per-update memo would forget)
            N, V, C = lang.N, lang.V, lang.C
            K = rng.choice([20, 40, 66, 90])
            o = rng.choice(['and', 'or'])
            body = N(rng.choice(['geq', 'leq']), V('y'), C(float(-1 if o == 'and' else 50)))
            for i in range(2, K + 1):
                body = N(o, body, N('geq' if o == 'and' else 'leq', V('y'), C(float(-i if o == 'and' else -50 - i))))
            sa = N(rng.choice(['once', 'historically']), N(rng.choice(['geq', 'leq']), V('x'), C(0.5)),
                   ivl=(0, rng.randint(2, 5))) if rng.random() < 0.8 else N('since', N('geq', V('x'), C(0.0)), N('leq', V('x'), C(1.0)))
            top = N(o, body, V('sa')) if rng.random() < 0.7 else N(o, V('sa'), N(o, body, V('sa')))
            defs, consts = [('sa', sa)], []
            f = lang.inline(top, defs)
        wide_n = None
        if kind in ('dt_off', 'dt_on') and rng.random() < 0.06:
            # a wide window (13..200 samples) inside a named sub-specification that later assertions refer to once or
            # twice - the shared node is evaluated for every reference - on a trace about as long as the window
            N, V, C = lang.N, lang.V, lang.C
            w = lang.wide_width(rng)
            a = rng.choice([0, 0, 1, 3])
            ops = ['once', 'historically'] + (['eventually', 'always'] if kind == 'dt_off' else [])
            sa = N(rng.choice(ops), N(rng.choice(['geq', 'leq']), V('x'), C(rng.choice([0.0, 1.0]))), ivl=(a, a + w))
            ref = V('sa')
            top = rng.choice([N('and', ref, N('geq', V('y'), C(0.0))), N('or', ref, N('prev', ref)),
                              N('and', N('not', ref), N('once', ref, ivl=(0, 2))), N('implies', N('leq', V('y'), C(1.0)), ref)])
            defs, consts = [('sa', sa)], []
            f = lang.inline(top, defs)
            wide_n = rng.randint(max(8, w // 2), w + a + 40)
        names = lang.variables(f) or ['x']
        case = {'kind': kind, 'top': lang.to_jsonable(top), 'defs': [(nm, lang.to_jsonable(g)) for nm, g in defs],
                'consts': [(nm, val) for nm, val in consts], 'style': rng.choice(['add_sub_spec', 'one-text']),
                'declare_names': rng.random() < 0.8}
        if rng.random() < 0.15:
            case['comments'] = rng.randrange(1 << 30)
        if rng.random() < 0.15 and any(g[1] is not None for g in lang.walk(f)):
            case['bound_consts'] = True
        elif rng.random() < 0.15 and kind in ('dt_off', 'dt_on', 'ct_off', 'ct_on'):
            # an interface-aware semantics with a random io assignment, on the modular and on the inlined form
            from rtverif.props.c06 import SEMS
            case['ia'] = [rng.choice(SEMS[1:]), dict((k, rng.choice(['input', 'output'])) for k in names)]
        if case['style'] == 'add_sub_spec' and defs and not case.get('bound_consts') and rng.random() < 0.12 and not (
                lang.ops_of(f) & set(['div', 'ln', 'log', 'sqrt', 'pow', 'exp'])):
            # (no operator with a restricted domain: rtamt keeps - and evaluates - the assertions of the earlier parse,
            # in which the names still have their earlier definitions; a domain error there is not this property's)
            # the object was parsed with *another* definition of one or all of the names before (parse(), then
            # add_sub_spec() with the final definition, main text untouched, parse() again): the last definition counts
            case['redefined'] = [rng.random() < 0.6 for _ in defs]
            if not any(case['redefined']):
                case['redefined'][0] = True
        if kind.startswith('ct'):
            case['signals'] = sig_text(lang.gen_signals(rng, names) if kind == 'ct_off' else
                                       dict((k, s) for k, s in self._aligned(rng, names).items()))
        else:
            n = rng.randint(1, 20) if kind != 'dt_on_pastified' else lang.horizon(f) + rng.randint(1, 12)
            case['data'] = lang.gen_trace(rng, names, n)
            if wide_n:
                case['wide_named'] = True
                case['data'] = dict((k, lang.gen_values(rng, wide_n, rng.choice(['tiny', 'steps', 'small']))) for k in names)
        return case

    def _aligned(self, rng, names):
        base = lang.gen_signal(rng, n=rng.randint(2, 8), start=Fr(0))
        return dict((k, [(t, rng.choice(lang.SMALL)) for (t, _) in base]) for k in names)

    def run(self, ctx):
        Prop.run(self, ctx)

    def execute(self, kind, sd, names, case):
        api = 'ct' if kind.startswith('ct') else 'dt'
        m = drive.Mon(api, sd, pastify=(kind == 'dt_on_pastified'))
        if kind == 'dt_off':
            data = case['data']
            return drive.values(m.evaluate(drive.dt_dataset(data)))
        if kind.startswith('dt_on'):
            data = case['data']
            n = len(data[names[0]])
            return [m.update(i, [(k, data[k][i]) for k in names]) for i in range(n)]
        sig = sig_from_json(case['signals'])
        if kind == 'ct_off':
            return m.evaluate(*drive.ct_args(sig, names))
        n = len(sig[names[0]])
        half = max(1, n // 2)
        out = []
        for a, b in ((0, half), (half, n)):
            if a < b:
                out += m.update(*[[k, [[float(t), v] for t, v in sig[k][a:b]]] for k in names])
        return out

    def judge(self, case):
        v = Verdict()
        kind = case['kind']
        f = inlined_formula(case)
        dense = kind.startswith('ct')
        names = sorted(case['signals'] if dense else case['data'])
        defs = [(nm, lang.from_jsonable(g)) for nm, g in case['defs']]
        top = lang.from_jsonable(case['top'])
        refs = {}
        for g in [top] + [d for _, d in defs]:
            for h in lang.walk(g):
                if h[0] == 'var' and h[2] in dict(defs):
                    refs[h[2]] = refs.get(h[2], 0) + 1
        v.nontrivial = any(lang.has_stateful(g) for _, g in defs) or any(c >= 2 for c in refs.values())
        v.info['kind:' + kind] = 1
        if case.get('wide_named'):
            v.info['class:wide-window-in-a-named-sub-specification'] = 1
        if len(defs) >= 9:
            v.info['class:many-named-assertions'] = 1
        if lang.size(top) >= 60 if hasattr(lang, 'size') else len(list(lang.walk(top))) >= 60:
            v.info['class:wide-main-assertion'] = 1
        v.info['multi-ref'] = 1 if any(c >= 2 for c in refs.values()) else 0
        v.info['consts'] = 1 if case['consts'] else 0
        iasd = {}
        try:
            if case.get('ia'):
                from rtverif.props.c06 import hook_dense, hook_discrete
                iasd = {'semantics': case['ia'][0], 'io': case['ia'][1]}
                v.info['class:interface-aware'] = 1
            if dense:
                sig = sig_from_json(case['signals'])
                exp = ref_dense.evaluate(f, sig, pred_hook=hook_dense(*case['ia']) if case.get('ia') else None)
            else:
                exp = refd.evaluate(f, case['data'], len(case['data'][names[0]]),
                                    pred_hook=hook_discrete(*case['ia']) if case.get('ia') else None)
        except refd.Undefined:
            v.skip = 'reference undefined (domain error)'
            return v
        rel = rel_for(f)
        try:
            itext = lang.to_text(f, ivl_printer=inlined_ivl) if case.get('bound_consts') else text_of(case, f)
            if case.get('bound_consts'):
                v.info['class:bound-constants'] = 1
            inl = self.execute(kind, dict({'text': itext, 'vars': names}, **iasd), names, case)
        except Exception as e:
            v.skip = 'inlined form raised %s' % type(e).__name__
            return v
        sd = dict(modular_sd(case, names), **iasd)
        try:
            mod = self.execute(kind, sd, names, case)
        except Exception as e:
            v.bad('modular-raises:' + type(e).__name__, '%s [%s]: modular form raised %s: %s (inlined form %s returns)'
                  % (sd, kind, type(e).__name__, e, lang.to_text(f)))
            return v
        if not dense:
            h = lang.horizon(f) if kind == 'dt_on_pastified' else 0
            for i in range(len(inl)):
                if kind == 'dt_on_pastified' and i < h:
                    continue
                if kind != 'dt_on_pastified' and exp[i] != exp[i]:
                    continue
                if inl[i] != inl[i]:
                    continue
                if i >= len(mod) or not refd.same(mod[i], inl[i], rel):
                    v.bad('modular!=inlined', '%s [%s] data=%s: value #%d is %r in the modular form, %r in the inlined '
                          'form %s' % (sd, kind, case['data'], i, mod[i] if i < len(mod) else None, inl[i],
                                       lang.to_text(f)))
                    break
            return v
        start = max(s[0][0] for s in sig.values())
        end = min(s[-1][0] for s in sig.values())
        if not inl:
            return v
        fin = [s for s in inl if abs(s[0]) != refd.INF]
        lo = max(start, ref_dense.Q(fin[0][0])) if fin else start
        hi = min(end, ref_dense.Q(fin[-1][0])) if fin else end
        if hi < lo:
            return v
        for t in ref_dense.probe_times(exp, inl + mod, lo, hi):
            if exp.at(t) != exp.at(t):
                continue
            a, b = ref_dense.out_value(mod, t), ref_dense.out_value(inl, t)
            if b is None:
                continue
            if a is None or not refd.same(a, b, rel):
                v.bad('modular!=inlined', '%s [%s] signals=%s: at t=%s modular gives %r, inlined %s gives %r' % (
                    sd, kind, case['signals'], float(t), a, lang.to_text(f), b))
                break
        return v


PROP = C09()
