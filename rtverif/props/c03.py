"""C03 — pastified bounded-future monitor reports the original robustness with fixed delay h."""
from rtverif import lang, drive, findings
from rtverif import ref_discrete as ref
from rtverif.props.base import Prop, Verdict, fmt
from rtverif.props.c01 import rel_for


def bf_cfg(rng):
    nv = rng.choice([1, 2, 2, 3])
    c = lang.GenCfg(vars=list(lang.VAR_POOL[:nv]), max_depth=rng.choice([1, 2, 2, 3, 3, 4]),
                    unbounded_future=False, unless=True, max_bound=rng.choice([1, 2, 3, 4]))
    r = rng.random()
    if r < 0.25:
        c.past = False                 # future-only chains
    elif r < 0.4:
        c.future = False               # future-free: pastify must be the identity
    if rng.random() < 0.2:
        c.untyped = 0.2
    if rng.random() < 0.1:
        c.transcend = True
    return c


class C03(Prop):
    id = 'C03'
    rule_added = '20% of the cases are written as modular specifications (named sub-specifications referenced from several future depths). 12% under an interface-aware semantics. 12% under a sampling period {500 ms, 250 ms, 2 s, 4 s} with default unit s, ms or us (half of them configured period first, unit second); 10% a one-step delay above a look-ahead operand next to a sibling with look-ahead; every update is compared, also after one the open finding explains.'
    rule = ('random bounded-future STL formulas (bounded eventually/always/until/unless, next/s_next, mixed with '
            'all past operators, Boolean, arithmetic; horizon h<=12; 15% future-free) x traces of h+1..h+14 samples: '
            'parse(); pastify(); update #i for every i>=h is compared with evaluate() of a fresh *un-pastified* offline '
            'spec on the prefix w[0..i] at sample i-h (h computed by the harness, not taken from rtamt); for '
            'future-free formulas the pastified and un-pastified online monitors are compared at every step. '
            'distinct = hash(formula, data); non-trivial = h>=1 and n>h+1.')
    assumptions = ['nothing is demanded for updates i<h', 'NaN positions are not compared']
    floors = {'quick': (300, 80), 'thorough': (5000, 1500)}
    must_reach = ['stl/pastifier:StlPastifier.pastify']
    quick_cases = 1500
    thorough_cases = 1500000

    def shrinkable(self, case):
        return not case.get('modular')          # (the modular text would no longer belong to the shrunk formula)

    def gen(self, rng, ctx):
        want_future = rng.random() < 0.85
        modular = rng.random() < 0.2
        for _ in range(200):
            c = bf_cfg(rng)
            if want_future:
                c.future = True
            if modular:
                c.dup = 0.4                # a sub-formula occurs several times, possibly at different future depths
                c.max_depth = max(c.max_depth, 2)
            f = lang.gen_formula(rng, c)
            if want_future and not modular and rng.random() < 0.1 and lang.horizon(f) >= 1:
                # a one-step delay above a look-ahead operand next to a sibling with its own look-ahead: the
                # horizons of both must add up the same way in the horizon pass and in the rewriting pass
                g = lang.gen_formula(rng, c)
                f = lang.N(rng.choice(['and', 'or', 'since']), *rng.sample([lang.N(rng.choice(['prev', 's_prev']), f), g], 2))
            h = lang.horizon(f)
            if h <= 12 and (h >= 1 or not want_future):
                break
        n = h + rng.randint(1, 14)
        names = lang.variables(f) or [c.vars[0]]
        case = {'formula': f, 'data': lang.gen_trace(rng, names, n), 'online_kind': rng.choice(['dt', 'dt_on'])}
        if rng.random() < 0.15:
            # the same durations written with unit suffixes (period 1 s, default unit s)
            case['mode'] = rng.choice(['end-only', 'begin-only', 'both', 'same-suffix'])
            case['sseed'] = rng.randrange(1 << 30)
        elif rng.random() < 0.12:
            # another sampling period (default unit s): one sample is no longer one default unit
            case['period'] = rng.choice([[500, 'ms'], [2, 's'], [250, 'ms'], [4, 's'], [1, 's'], [1, 's']])
            case['punit'] = rng.choice(['s', 's', 'ms', 'ms', 'us'])        # default unit the bounds are written in
            if case['period'] == [1, 's']:
                case['punit'] = rng.choice(['ms', 'us'])      # (the numeral 1 in another unit than the default one)
        elif rng.random() < 0.12:
            from rtverif import pastmodel
            from rtverif.props.c06 import SEMS
            case['ia'] = [rng.choice(SEMS[1:]), dict((k, rng.choice(['input', 'output'])) for k in names)]
            case['online_kind'] = 'dt'          # (the online-only class takes no semantics argument)
        elif modular and lang.depth(f) >= 2:
            # the same formula written with named sub-specifications (every occurrence of a chosen sub-formula
            # becomes a reference to one name)
            top, defs = lang.decompose(rng, f, rng.randint(1, 3))
            if defs:
                case['modular'] = {'top': lang.to_jsonable(top), 'defs': [[nm, lang.to_jsonable(g)] for nm, g in defs],
                                   'consts': [], 'style': rng.choice(['one-text', 'subspecs'])}
        return case


    def judge(self, case):
        v = Verdict()
        f, data = case['formula'], case['data']
        if lang.has_unbounded_future(f):
            v.skip = 'unbounded future'
            return v
        names = sorted(data)
        n = len(data[names[0]])
        h = lang.horizon(f)
        text = lang.to_text(f)
        if case.get('mode'):
            import random
            from rtverif.props.c08 import Speller
            try:
                text = lang.to_text(f, ivl_printer=Speller(random.Random(case['sseed']), 10 ** 9, 's', case['mode']).ivl)
            except ValueError:
                pass
            v.info['class:unit-suffixes'] = 1
        times = list(range(n))
        if case.get('period'):
            import random
            from fractions import Fraction as Fr
            from rtverif.props.c08 import Speller, U
            per = case['period']
            P = per[0] * U[per[1]]
            pu = case.get('punit', 's')
            text = lang.to_text(f, ivl_printer=Speller(random.Random(0), P, pu, 'default').ivl)
            times = [float(Fr(i * P, U[pu])) for i in range(n)]
            v.info['class:sampling-period'] = 1
        rel = rel_for(f)
        v.nontrivial = h >= 1 and n > h + 1
        v.info['class:' + ('future-free' if h == 0 and not lang.has_future(f) else
                           'future-only' if not lang.has_past(f) else 'mixed')] = 1
        v.info['h:%d' % min(h, 8)] = 1
        hook, sdx = None, {}
        if case.get('ia'):
            from rtverif.props.c06 import hook_discrete
            hook = hook_discrete(case['ia'][0], case['ia'][1])
            sdx = {'semantics': case['ia'][0], 'io': case['ia'][1]}
            v.info['class:interface-aware'] = 1
        try:
            exp = [ref.evaluate(f, data, i + 1, pred_hook=hook)[i - h] if i >= h else None for i in range(n)]
        except ref.Undefined:
            v.skip = 'reference undefined (domain error)'
            return v
        kind = case.get('online_kind', 'dt')
        if case.get('period'):
            sdx = dict(sdx, period=(case['period'][0], case['period'][1], 0.1))
            if case.get('punit', 's') != 's':
                sdx['unit'] = case['punit']
        sd = dict({'text': text, 'vars': names}, **sdx)
        if case.get('modular'):
            from rtverif.props.c09 import modular_sd
            sd = modular_sd(case['modular'], names)
            v.info['class:modular'] = 1
            if any(sum(1 for g in lang.walk(lang.from_jsonable(case['modular']['top'])) if g == lang.V(nm)) +
                   sum(1 for _, d in case['modular']['defs'] for g in lang.walk(lang.from_jsonable(d)) if g == lang.V(nm))
                   >= 2 for nm, _ in case['modular']['defs']):
                v.info['class:modular-name-referenced-twice'] = 1
        try:
            m = drive.Mon(kind, sd)
            m.pastify()
        except Exception as e:
            v.bad('pastify-raises:' + type(e).__name__, '%s: pastify() raised %s: %s' % (text, type(e).__name__, e),
                  None)
            return v
        on = []
        try:
            for i in range(n):
                on.append(m.update(times[i], [(k, data[k][i]) for k in names]))
        except Exception as e:
            v.bad('update-raises:' + type(e).__name__, '%s: update #%d after pastify() raised %s: %s' % (
                text, len(on), type(e).__name__, e), None)
            return v
        off = None
        for i in range(h, n):
            if exp[i] != exp[i]:
                continue
            if not ref.same(on[i], exp[i], rel):
                # literal comparator: the real offline monitor on the prefix
                try:
                    off = drive.values(drive.dt_offline(text, names, data, i + 1, times=times[:i + 1], sd=sdx))[i - h]
                except Exception as e:
                    off = 'raised %s' % type(e).__name__
                if isinstance(off, float) and ref.same(on[i], off, rel):
                    continue     # offline itself deviates from the reference: reported by C01, not here
                known = None        # (D-past-over-future was repaired for discrete time, b0751cf: nothing is attributed here)
                if known and i + 1 < n and not v.viol:
                    # explained by the open finding at this update: remember it, but keep looking for an update
                    # that the defect model does NOT explain (another defect on the same formula)
                    v.bad('delayed-value', '%s (h=%d) data=%s: update #%d returned %r, offline robustness of the '
                          'original at sample %d on the %d-sample prefix is %r (reference %r)' % (
                              text, h, data, i, on[i], i - h, i + 1, off, exp[i]), known)
                    continue
                if known:
                    if not v.viol:
                        v.bad('delayed-value', '%s (h=%d) data=%s: update #%d returned %r, reference %r' % (
                            text, h, data, i, on[i], exp[i]), known)
                    continue
                v.viol = [x for x in v.viol if x[1] is None]
                v.bad('delayed-value', '%s (h=%d) data=%s: update #%d returned %r, offline robustness of the '
                      'original at sample %d on the %d-sample prefix is %r (reference %r)' % (
                          text, h, data, i, on[i], i - h, i + 1, off, exp[i]), None)
                return v
        if not lang.has_future(f):
            try:
                plain = drive.dt_online(text, names, data, n, times=times, kind=kind, sd=sdx)
            except Exception as e:
                return v
            for i in range(n):
                if exp[i] != exp[i]:
                    continue
                if not ref.same(on[i], plain[i], rel):
                    v.bad('pastify-changed-future-free', '%s data=%s: update #%d is %r after pastify() but %r without'
                          % (text, data, i, on[i], plain[i]), None)
                    break
        return v


    def long_runs(self, ctx):
        """A few pastified monitors fed for several thousand updates without reset(): whatever an operation does to
        bound its memory (ring buffers, blockwise trimming) must not show in the values.  The reference is
        evaluated once on the whole trace: a bounded-future value at i-h only depends on the samples up to i."""
        if ctx.shard != 0:
            return
        rng = ctx.rng
        x, y = lang.V('x'), lang.V('y')
        p, q = lang.N('geq', x, lang.C(0.0)), lang.N('geq', y, lang.C(1.0))
        forms = [lang.N('until', p, q, ivl=(1, 3)),
                 lang.N('always', lang.N('not', lang.N('until', q, p, ivl=(0, 3))), ivl=(0, 1)),
                 lang.N('eventually', lang.N('and', p, lang.N('next', q)), ivl=(0, 2)),
                 lang.N('unless', p, q, ivl=(0, 2))]
        n = 4300 if ctx.tier == 'quick' else 9000
        for f in forms:
            data = dict((k, [rng.choice(lang.SMALL) for _ in range(n)]) for k in ('x', 'y'))
            h = lang.horizon(f)
            text = lang.to_text(f)
            exp = ref.evaluate(f, data, n)
            case = {'type': 'long-run', 'text': text, 'n': n}
            ctx.case(case, True)
            ctx.count('class:long-run', 1)
            try:
                m = drive.Mon('dt', {'text': text, 'vars': ['x', 'y']}, pastify=True)
                on = [m.update(i, [('x', data['x'][i]), ('y', data['y'][i])]) for i in range(n)]
            except Exception as e:
                ctx.violation('update-raises:' + type(e).__name__, '%s: a %d-update run after pastify() raised %s: %s' % (
                    text, n, type(e).__name__, e), case)
                continue
            bad = [i for i in range(h, n) if exp[i - h] == exp[i - h] and not ref.same(on[i], exp[i - h])]
            if bad:
                i = bad[0]
                ctx.violation('delayed-value', '%s (h=%d), %d updates without reset(): update #%d returned %r, the robustness '
                              'of the original at sample %d is %r (%d updates differ, data around: x=%s y=%s)' % (
                                  text, h, n, i, on[i], i - h, exp[i - h], len(bad), data['x'][max(0, i - 6):i + 1],
                                  data['y'][max(0, i - 6):i + 1]), case)

    def extra(self, ctx):
        """Enumerated part: every bounded-future operator x every interval [a,b], 0<=a<=b<=3, alone, under every
        other future operator (reduced interval set), and next to a sibling with a different horizon."""
        self.long_runs(ctx)
        rng = ctx.rng
        x, y = lang.V('x'), lang.V('y')
        px, py = lang.N('geq', x, lang.C(1.0)), lang.N('leq', y, lang.C(0.5))
        ivls = [(a, b) for a in range(4) for b in range(a, 4)]
        base = []
        for iv in ivls:
            base += [lang.N('eventually', px, ivl=iv), lang.N('always', px, ivl=iv), lang.N('until', px, py, ivl=iv),
                     lang.N('unless', px, py, ivl=iv), lang.N('eventually', x, ivl=iv)]
        base += [lang.N('next', px), lang.N('s_next', px)]
        forms = list(base)
        red = [(0, 0), (1, 1), (0, 2), (1, 2)]
        small = [g for g in base if g[1] is None or g[1] in red]
        for g in small:
            for iv in red:
                forms += [lang.N('eventually', g, ivl=iv), lang.N('always', g, ivl=iv), lang.N('until', g, py, ivl=iv),
                          lang.N('until', py, g, ivl=iv)]
            forms += [lang.N('next', g), lang.N('not', g)]
        if ctx.tier == 'thorough':
            for g in small:
                for g2 in small:
                    forms += [lang.N('and', g, g2), lang.N('implies', g, g2)]
        else:
            for g in small[::3]:
                for g2 in small[1::4]:
                    forms.append(lang.N('and', g, g2))
        forms = [f for i, f in enumerate(forms) if i % ctx.nshards == ctx.shard]
        done = 0
        for f in forms:
            if ctx.out_of_time():
                ctx.notes.append('future-operator enumeration stopped by the wall-clock budget after %d' % done)
                break
            h = lang.horizon(f)
            for n in (h + 1, h + 4):
                self.check(ctx, {'formula': f, 'data': lang.gen_trace(rng, lang.variables(f), n), 'online_kind': 'dt'})
            done += 1
        ctx.count('enumerated-future-operator-formulas', done)


PROP = C03()
