"""C08 — temporal bounds denote physical durations whatever the unit notation."""
from fractions import Fraction as Fr
from rtverif import lang, drive
from rtverif import ref_discrete as refd
from rtverif import ref_dense
from rtverif.props.base import Prop, Verdict, fmt
from rtverif.props.c01 import rel_for
from rtverif.props.c02 import past_cfg
from rtverif.props.c03 import bf_cfg

U = {'s': 10 ** 9, 'ms': 10 ** 6, 'us': 10 ** 3, 'ns': 1}
PERIODS = [(1, 's'), (500, 'ms'), (2, 's'), (250000, 'us'), (1, 'ms'), (1, 's'), (500, 'ms'), (2, 's'),
           # the same periods written with large numerals in a finer unit, periods that are not a whole number of
           # any coarser unit, float periods
           (1000, 'ms'), (1000000, 'us'), (10 ** 9, 'ns'), (500000, 'us'), (5 * 10 ** 8, 'ns'), (1500, 'ms'),
           (1500000, 'us'), (1500000000, 'ns'), (2500, 'us'), (2500000, 'ns'), (0.5, 's'), (1.5, 's'), (3, 's'),
           (7, 'ms'), (60, 's'), (1001, 'ms'), (10, 'ms'), (10000, 'us'), (1, 'us'), (100, 'ms')]


def period_ns(period):
    return int(Fr(str(period[0])) * U[period[1]])


def dur_in(d_ns, unit):
    """Duration (integer ns) as a literal in ``unit``; None if it needs more than 9 decimals."""
    q = Fr(d_ns, U[unit])
    if q.denominator == 1:
        return str(q.numerator)
    for k in range(1, 10):
        if (q * 10 ** k).denominator == 1:
            s = '%d' % (q * 10 ** k).numerator
            s = s.rjust(k + 1, '0')
            return s[:-k] + '.' + s[-k:]
    return None


class Speller(object):
    """Prints each interval (given in samples) as durations in a chosen notation."""

    def __init__(self, rng, period_ns, default_unit, mode):
        self.rng, self.P, self.du, self.mode = rng, period_ns, default_unit, mode
        self.consts = []

    def one(self, k, unit, suffix):
        lit = dur_in(k * self.P, unit)
        if lit is None:
            raise ValueError('unprintable')
        return lit + (unit if suffix else '')

    def ivl(self, i):
        a, b = i
        m = self.mode
        if m == 'default':
            return '[%s,%s]' % (self.one(a, self.du, False), self.one(b, self.du, False))
        if m == 'both':
            ua, ub = self.rng.choice(list(U)), self.rng.choice(list(U))
            return '[%s,%s]' % (self.one(a, ua, True), self.one(b, ub, True))
        if m == 'same-suffix':
            u = self.rng.choice(list(U))
            return '[%s:%s]' % (self.one(a, u, True), self.one(b, u, True))
        if m == 'end-only':
            u = self.rng.choice(list(U))
            return '[%s,%s]' % (self.one(a, u, False), self.one(b, u, True))
        if m == 'begin-only':
            u = self.rng.choice(list(U))
            return '[%s,%s]' % (self.one(a, u, True), self.one(b, u, False))
        if m == 'const':
            nm = 'c%d' % len(self.consts)
            self.consts.append((nm, 'float', self.one(b, self.du, False)))
            return '[%s,%s]' % (self.one(a, self.du, False), nm)
        if m == 'suffix-const':
            # a suffixed begin next to a bare declared constant: the constant counts in the unit of the other bound
            u = self.rng.choice(list(U))
            nm = 'c%d' % len(self.consts)
            self.consts.append((nm, 'float', self.one(b, u, False)))
            return '[%s:%s]' % (self.one(a, u, True), nm)
        if m == 'const-suffix':
            u = self.rng.choice(list(U))
            nm = 'c%d' % len(self.consts)
            self.consts.append((nm, 'float', self.one(b, u, False)))
            return '[%s,%s %s]' % (self.one(a, u, True), nm, u)
        raise ValueError(m)


MODES = ('default', 'both', 'same-suffix', 'end-only', 'begin-only', 'const', 'const-suffix', 'suffix-const')


class C08(Prop):
    id = 'C08'
    rule_added = '10% sibling cases: two operators over one operand whose intervals have the same numerals and differ only in a unit suffix, compared with the reference on the two real durations. Eighth spelling: suffixed begin + bare declared constant.'
    rule = ('a generated formula with bounded operators (bounds in samples) is run once in the canonical notation '
            '(period 1 s, unit s, no suffixes) and then under other notations of the same durations: period in {1 s, '
            '500 ms, 2 s, 250000 us, 1 ms} x default unit in {s, ms, us, ns} (set with spec.unit) x spelling in '
            '{default unit, suffix on both ends (mixed units), ":" + same suffix, suffix on the end only, on the begin '
            'only, declared-constant bound, constant with suffix, suffixed begin + bare constant}; offline, online (past formulas) and online after '
            'pastify() (bounded-future formulas) must return the same values. Bounds that are not a multiple of the '
            'period must raise RTAMTException by the first evaluation. Dense time: the same formula and signal '
            'under a consistent change of unit (stamps rescaled) must give the same values at the rescaled stamps. '
            'distinct = hash(case); non-trivial = >=1 bounded operator with a bound >0 in a non-canonical notation.')
    assumptions = ['a one-sided suffix applies to both ends and a suffix-free interval is in the default unit '
                   '(rule stated by the anchor: per-bound unit, else the other bound unit, else the default unit)']
    floors = {'quick': (200, 60), 'thorough': (4000, 1000)}
    must_reach = ['discrete_time_interpreter:DiscreteTimeInterpreter.time_unit_transformer']
    quick_cases = 1200
    thorough_cases = 800000
    shrink_data = False
    case_timeout = 8

    def shrinkable(self, case):
        return False

    def gen(self, rng, ctx):
        r = rng.random()
        if r < 0.02:
            return self.gen_shared_const(rng)
        if r < 0.12:
            return self.gen_nonmultiple(rng)
        if r < 0.3:
            return self.gen_dense(rng)
        if r < 0.4:
            return self.gen_sibling(rng)
        if r < 0.46:
            # a past operator above a bounded-future one, after pastify(): the late start of the past operation is a
            # number of samples whatever the period and the default unit are (look-ahead of 1..12 samples)
            k = rng.randint(1, 12)
            p = lang.N(rng.choice(['geq', 'leq']), lang.V('x'), lang.C(rng.choice([0.0, 1.0, 2.0])))
            inner = lang.N(rng.choice(['eventually', 'always']), p, ivl=(rng.choice([0, 0, 1]) if k > 1 else 0, k))
            o = rng.choice(['historically', 'once', 'prev', 'rise', 'historically', 'once'])
            f = lang.N(o, inner) if (o in ('prev', 'rise') or rng.random() < 0.5) else lang.N(o, inner, ivl=(0, rng.randint(1, 3)))
            if rng.random() < 0.4:
                f = lang.N(rng.choice(['and', 'or']), f, lang.N('geq', lang.V('y'), lang.C(0.0)))
            names = lang.variables(f)
            return {'type': 'discrete', 'cls': 'pastified', 'formula': f,
                    'data': lang.gen_trace(rng, names, rng.randint(4, 14) + lang.horizon(f)),
                    'period': rng.choice([(10, 'ms'), (10000, 'us'), (1, 'ms'), (1, 'us'), (100, 'ms'), (500, 'ms'), (1, 's'),
                                          (7, 'ms'), (2500, 'us')]),
                    'unit': rng.choice(['s', 's', 'ms', 'us']), 'mode': rng.choice(MODES), 'sseed': rng.randrange(1 << 30),
                    'set_unit_explicitly': rng.random() < 0.3}
        cls = rng.choice(['offline', 'online', 'pastified', 'pastified', 'pastified-futurefree'])
        if cls == 'offline':
            c = lang.GenCfg(vars=['x', 'y'], max_depth=rng.choice([1, 2, 3]), unless=True, max_bound=rng.choice([2, 4, 6]),
                            unbounded_future=rng.random() < 0.5)
        elif cls in ('online', 'pastified-futurefree'):
            c = past_cfg(rng)
            c.max_depth = min(c.max_depth, 3)
            c.transcend = False
        else:
            c = bf_cfg(rng)
            c.future = True
            c.max_depth = min(c.max_depth, 3)
            c.transcend = False
        for _ in range(100):
            f = lang.gen_formula(rng, c)
            if any(g[1] is not None for g in lang.walk(f)) and (cls != 'pastified' or 0 < lang.horizon(f) <= 8):
                break
        names = lang.variables(f) or ['x']
        n = rng.randint(1, 14) + (lang.horizon(f) if cls == 'pastified' else 0)
        return {'type': 'discrete', 'cls': cls, 'formula': f, 'data': lang.gen_trace(rng, names, n),
                'period': rng.choice(PERIODS), 'unit': rng.choice(['s', 's', 'ms', 'us', 'ns']),
                'mode': rng.choice(MODES), 'sseed': rng.randrange(1 << 30), 'set_unit_explicitly': rng.random() < 0.3}

    def gen_shared_const(self, rng):
        """One declared constant used as the end bound of two operators with different unit notations
        (`once[0:T](p) and historically[0:T s](q)`): every occurrence is read with the unit written next to IT."""
        T = rng.choice([1, 2, 3])
        du = rng.choice(['ms', 's'])
        u1, u2 = rng.sample(['', 'ms', 's'], 2)
        if (u1 or du) == (u2 or du):
            u1, u2 = 'ms', 's'
        o1, o2 = rng.choice(['once', 'historically']), rng.choice(['once', 'historically'])
        return {'type': 'shared-const', 'T': T, 'du': du, 'u': [u1, u2], 'ops': [o1, o2], 'conn': rng.choice(['and', 'or']),
                'online': rng.random() < 0.5, 'data': lang.gen_trace(rng, ['x', 'y'], rng.randint(5, 12))}

    def judge_shared_const(self, case):
        v = Verdict()
        v.nontrivial = True
        v.info['class:shared-constant-bound'] = 1
        T, du, (u1, u2), (o1, o2) = case['T'], case['du'], case['u'], case['ops']
        data = case['data']
        n = len(data['x'])
        w = [T * U[u or du] // U['ms'] for u in (u1, u2)]            # windows in samples (period 1 ms)
        px, py = lang.N('geq', lang.V('x'), lang.C(1.0)), lang.N('leq', lang.V('y'), lang.C(1.0))
        f = lang.N(case['conn'], lang.N(o1, px, ivl=(0, w[0])), lang.N(o2, py, ivl=(0, w[1])))
        exp = refd.evaluate(f, data, n)
        text = '((%s[0:T%s] (x >= 1)) %s (%s[0:T%s] (y <= 1)))' % (o1, (' ' + u1) if u1 else '', case['conn'], o2,
                                                                   (' ' + u2) if u2 else '')
        sd = {'text': text, 'vars': ['x', 'y'], 'consts': [('T', 'float', str(T))], 'period': (1, 'ms', 0.1), 'unit': du}
        times = [float(Fr(i * U['ms'], U[du])) for i in range(n)]
        try:
            got = self.run_disc('online' if case['online'] else 'offline', sd, ['x', 'y'], data, n, times)
        except Exception as e:
            v.bad('shared-const-raises:' + type(e).__name__, '%s [T=%s, unit=%s, period 1ms] raised %s: %s' % (
                text, T, du, type(e).__name__, e))
            return v
        for i in range(n):
            if exp[i] == exp[i] and not refd.same(got[i], exp[i]):
                v.bad('shared-const-differs', '%s [T=%s, unit=%s, period 1ms, %s] gives %r at #%d; with windows of %d and %d '
                      'samples the value is %r; data=%s' % (text, T, du, 'online' if case['online'] else 'offline', got[i], i,
                                                            w[0], w[1], exp[i], data))
                break
        return v

    def gen_nonmultiple(self, rng):
        op = rng.choice(['once', 'historically', 'eventually', 'always', 'since', 'until'])
        period = rng.choice(PERIODS)
        P = period_ns(period)
        ka, kb = sorted([rng.randint(0, 4), rng.randint(0, 4)])
        off = rng.choice([Fr(1, 2), Fr(1, 4), Fr(1, 5), Fr(3, 4)])
        which = rng.choice(['begin', 'end', 'both'])
        a = (ka + off if which in ('begin', 'both') else ka) * P
        b = (kb + 1 + off if which in ('end', 'both') else kb + 1) * P
        return {'type': 'nonmultiple', 'op': op, 'period': period, 'a_ns': int(a), 'b_ns': int(b),
                'unit': rng.choice(['s', 'ms', 'us']), 'online': rng.random() < 0.5,
                'data': lang.gen_trace(rng, ['x', 'y'], 4)}

    def gen_sibling(self, rng):
        """Two operators over the same operand whose intervals are spelled with the same numerals and differ only
        in a unit suffix (``once[0:2s](p) and not once[0:2ms](p)``): every suffix must count."""
        small, big = rng.choice([('ms', 's'), ('us', 'ms'), ('ns', 'us')])
        unit = rng.choice([small, small, big])                  # default unit of the specification
        cls = rng.choice(['offline'] * 5 + ['online'] * 7 + ['pastified'] * 2 + ['dense-online'] * 3 + ['dense-offline'] * 3)
        if cls in ('online', 'dense-online'):
            op = rng.choice(['once', 'historically', 'since'])
        else:
            op = rng.choice(['once', 'historically', 'since', 'eventually', 'always', 'until'])
        if cls == 'pastified':
            op = rng.choice(['eventually', 'always'])           # (the reference for until is cubic in the window)
        a, b = rng.choice([(0, 1), (0, 2), (0, 3), (1, 2), (1, 3), (2, 2)])
        if op in ('since', 'until') and not cls.startswith('dense'):
            a, b = rng.choice([(0, 1), (1, 1)])                   # rtamt's bounded since/until is quadratic in the window
        if cls.startswith('dense'):
            unit = small                                          # integer stamps: float arithmetic stays exact
        # begin is spelled the same way in both operators: with a suffix, or bare (then it takes the unit of the end,
        # or the default unit when the end is bare too); the ends carry the same numeral and different units
        ua = rng.choice([small, small, ''])
        sfx = [small, big] + ([''] if ua == '' else [])
        u1 = rng.choice(sfx)
        u2 = rng.choice([u for u in sfx if (u or unit) != (u1 or unit)])
        if cls == 'pastified' and big in (u1 or unit, u2 or unit):
            a, b = 0, 1                                           # horizon 1000 samples
        conn = rng.choice(['and', 'or', 'implies', 'xor', 'iff'])
        neg = rng.random() < 0.5
        c = lang.GenCfg(vars=['x', 'y'], max_depth=1, timed=False, future=False, past=False, events=False,
                        transcend=False)
        p, q = lang.gen_pred(rng, c, 0), lang.gen_pred(rng, c, 0)
        n = rng.randint(2, 12) + (1000 * b if cls == 'pastified' else 0)
        if rng.random() < 0.08 and op not in ('since', 'until') and cls in ('offline', 'online'):
            n += 1000 * min(b, 2)                               # long enough for the larger window to close
        if cls.startswith('dense'):
            n = rng.randint(2, 8)
        return {'type': 'sibling', 'cls': cls, 'op': op, 'a': a, 'b': b, 'ua': ua, 'u1': u1, 'u2': u2, 'small': small,
                'big': big, 'unit': unit, 'conn': conn, 'neg': neg, 'p': lang.to_jsonable(p), 'q': lang.to_jsonable(q),
                'dseed': rng.randrange(1 << 30), 'n': n}

    def gen_dense(self, rng):
        c = lang.dense_cfg(rng)
        c.max_depth = min(c.max_depth, 3)
        c.vars = ['x', 'y']
        for _ in range(100):
            f = lang.gen_formula(rng, c)
            if any(g[1] is not None for g in lang.walk(f)):
                break
        names = lang.variables(f) or ['x']
        base = lang.gen_signal(rng, n=rng.randint(2, 7), start=Fr(0))
        sig = dict((k, [[float(t), rng.choice(lang.SMALL)] for (t, _) in base]) for k in names)
        return {'type': 'dense', 'formula': f, 'signals': sig, 'unit': rng.choice(['ms', 'us', 's']),
                'mode': rng.choice(['default', 'both', 'same-suffix', 'end-only', 'begin-only']),
                'sseed': rng.randrange(1 << 30)}

    # ------------------------------------------------------------------------------------------
    def judge(self, case):
        t = case['type']
        if t == 'discrete':
            return self.judge_discrete(case)
        if t == 'nonmultiple':
            return self.judge_nonmultiple(case)
        if t == 'sibling':
            return self.judge_sibling(case)
        if t == 'shared-const':
            return self.judge_shared_const(case)
        return self.judge_dense(case)

    def run_disc(self, cls, sd, names, data, n, times):
        m = drive.Mon('dt', sd, pastify=cls.startswith('pastified'))
        if cls == 'offline':
            return drive.values(m.evaluate(drive.dt_dataset(data, n, times)))
        return [m.update(times[i], [(k, data[k][i]) for k in names]) for i in range(n)]

    def judge_discrete(self, case):
        import random
        v = Verdict()
        f, data, cls = case['formula'], case['data'], case['cls']
        names = sorted(data)
        n = len(data[names[0]])
        period, unit, mode = tuple(case['period']), case['unit'], case['mode']
        P = period_ns(period)
        try:
            exp = refd.evaluate(f, data, n)
        except refd.Undefined:
            v.skip = 'reference undefined (domain error)'
            return v
        rel = rel_for(f)
        sp = Speller(random.Random(case['sseed']), P, unit, mode)
        try:
            text = lang.to_text(f, ivl_printer=sp.ivl)
        except ValueError:
            v.skip = 'duration not printable in that unit'
            return v
        v.nontrivial = any(g[1] is not None and g[1][1] > 0 for g in lang.walk(f))
        v.info['mode:' + mode] = 1
        v.info['unit:%s/period:%s%s' % (unit, period[0], period[1])] = 1
        v.info['class:' + cls] = 1
        try:
            base = self.run_disc('online' if cls == 'pastified-futurefree' else cls,
                                 {'text': lang.to_text(f), 'vars': names}, names, data, n, list(range(n)))
        except Exception as e:
            v.skip = 'canonical notation raised %s' % type(e).__name__
            return v
        sd = {'text': text, 'vars': names, 'consts': sp.consts, 'period': (period[0], period[1], 0.1)}
        if unit != 's' or case.get('set_unit_explicitly'):
            sd['unit'] = unit
        times = [float(Fr(i * P, U[unit])) for i in range(n)]
        try:
            got = self.run_disc(cls, sd, names, data, n, times)
        except Exception as e:
            known = None
            v.bad('notation-raises:%s:%s' % (mode, type(e).__name__), '%s [unit=%s period=%s%s, %s] raised %s: %s; '
                  'canonical %s returns' % (text, unit, period[0], period[1], cls, type(e).__name__, e, lang.to_text(f)),
                  known)
            return v
        h = lang.horizon(f) if cls == 'pastified' else 0
        for i in range(h, n):
            if cls != 'pastified' and exp[i] != exp[i]:
                continue
            if base[i] != base[i]:
                continue
            if not refd.same(got[i], base[i], rel):
                v.bad('notation-differs:' + mode, '%s [unit=%s period=%s%s consts=%s, %s] gives %r at #%d, canonical '
                      '%s (period 1 s) gives %r; data=%s' % (text, unit, period[0], period[1], sp.consts, cls, got[i], i,
                                                            lang.to_text(f), base[i], data))
                break
        return v

    def judge_sibling(self, case):
        import random
        v = Verdict()
        rng = random.Random(case['dseed'])
        op, a, b, cls, unit = case['op'], case['a'], case['b'], case['cls'], case['unit']
        small, big = case['small'], case['big']
        k = U[big] // U[small]                                   # 1000
        p, q = lang.from_jsonable(case['p']), lang.from_jsonable(case['q'])
        binary = op in ('since', 'until')

        def spelled(u):
            return '[%d%s:%d%s]' % (a, case['ua'], b, u)

        def samples(u):
            # per-bound unit, else the unit of the other bound, else the default unit
            ue = u or case['ua'] or unit
            ub = case['ua'] or u or unit
            return (a * (U[ub] // U[small]), b * (U[ue] // U[small]))

        def node(ivl):
            return (op, ivl, p, q) if binary else (op, ivl, p)

        def text_of(u):
            body = lang.to_text(p) if not binary else None
            if binary:
                return '(%s %s%s %s)' % (lang.to_text(p), op, spelled(u), lang.to_text(q))
            return '(%s%s %s)' % (op, spelled(u), body)

        i1, i2 = samples(case['u1']), samples(case['u2'])
        if i1[0] > i1[1] or i2[0] > i2[1] or i1 == i2:
            v.skip = 'degenerate pair'
            return v
        f2 = node(i2)
        t2 = text_of(case['u2'])
        if case['neg']:
            f2, t2 = ('not', None, f2), '(not %s)' % t2
        f = (case['conn'], None, node(i1), f2)
        kw = {'and': 'and', 'or': 'or', 'implies': '->', 'xor': 'xor', 'iff': '<->'}[case['conn']]
        text = '(%s %s %s)' % (text_of(case['u1']), kw, t2)
        names = ['x', 'y']
        n = case['n']
        v.nontrivial = True
        v.info['sibling:%s:%s' % (cls, op)] = 1
        rel = rel_for(f)
        if cls.startswith('dense'):
            # dense time: stamps in the default unit, one sample of the speller = 1 small unit
            ts, t = [], Fr(0)
            for _ in range(n):
                ts.append(t)
                t += rng.choice([1, 1, 2, 3, 500, k, 2 * k]) * Fr(U[small], U[unit])
            sig = dict((nm, [(tt, rng.choice(lang.SMALL)) for tt in ts]) for nm in names)
            scale = Fr(U[small], U[unit])
            fd = lang.map_formula(f, lambda g: g if (lang.is_leaf(g) or g[1] is None) else
                                  (g[0], (g[1][0] * scale, g[1][1] * scale)) + g[2:])
            try:
                exp = ref_dense.evaluate(fd, sig)
            except refd.Undefined:
                v.skip = 'reference undefined'
                return v
            try:
                if cls == 'dense-offline':
                    got = drive.ct_offline(text, names, sig, sd={'unit': unit})
                else:
                    m = drive.Mon('ct', {'text': text, 'vars': names, 'unit': unit})
                    got, cut = [], rng.randint(1, n - 1) if n > 1 else n
                    for lo, hi in ((0, cut), (cut, n)):
                        if hi > lo:
                            got += m.update(*[[nm, [[float(tt), val] for tt, val in sig[nm][lo:hi]]] for nm in names])
            except Exception as e:
                v.bad('sibling-raises:' + type(e).__name__, '%s [unit=%s, %s] raised %s: %s' % (
                    text, unit, cls, type(e).__name__, e))
                return v
            end = ts[-1]
            fin = [g[0] for g in got if abs(g[0]) != float('inf')]
            cover = max(fin) if fin else None
            for tt in ref_dense.probe_times(exp, got, Fr(0), end):
                if exp.at(tt) != exp.at(tt):
                    continue
                gv = ref_dense.out_value(got, tt)
                if gv is None:
                    if cls == 'dense-offline':
                        v.bad('sibling-dense-missing', '%s [unit=%s, %s]: no value at t=%s; signals=%s got=%s' % (
                            text, unit, cls, float(tt), sig, got[:8]))
                        break
                    continue
                if cls == 'dense-online' and (cover is None or tt >= Fr(cover).limit_denominator(1 << 30)):
                    continue
                if not refd.same(gv, exp.at(tt), rel):
                    v.bad('sibling-dense-differs', '%s [unit=%s, %s] gives %r at t=%s, the durations %s and %s (in %s) '
                          'give %r; signals=%s' % (text, unit, cls, gv, float(tt), i1, i2, small, exp.at(tt),
                                                   dict((nm, [(float(a_), b_) for a_, b_ in s_]) for nm, s_ in sig.items())))
                    break
            return v
        data = dict((nm, [rng.choice(lang.SMALL) for _ in range(n)]) for nm in names)
        if n > 100:
            # long traces: constant stretches with a few changes, so that wide windows matter
            for nm in names:
                val, out = rng.choice(lang.SMALL), []
                for i in range(n):
                    if rng.random() < 0.004 or i in (1, 2, 3):
                        val = rng.choice(lang.SMALL)
                    out.append(val)
                data[nm] = out
        try:
            exp = refd.evaluate(f, data, n)
        except refd.Undefined:
            v.skip = 'reference undefined'
            return v
        sd = {'text': text, 'vars': names, 'period': (1, small, 0.1), 'unit': unit}
        times = [float(Fr(i * U[small], U[unit])) for i in range(n)]
        try:
            got = self.run_disc(cls, sd, names, data, n, times)
        except Exception as e:
            v.bad('sibling-raises:' + type(e).__name__, '%s [unit=%s period=1%s, %s] raised %s: %s' % (
                text, unit, small, cls, type(e).__name__, e))
            return v
        h = lang.horizon(f) if cls == 'pastified' else 0
        for i in range(h, n):
            e = exp[i - h] if cls == 'pastified' else exp[i]
            if e != e:
                continue
            if cls == 'offline' and i + lang.horizon(f) >= n:
                continue
            if not refd.same(got[i], e, rel):
                v.bad('sibling-differs', '%s [unit=%s period=1%s, %s] gives %r at #%d; with the durations %s and %s '
                      'samples the value is %r; data(head)=%s n=%d' % (text, unit, small, cls, got[i], i, i1, i2, e,
                                                                    dict((nm, d[:12]) for nm, d in data.items()), n))
                break
        return v

    def judge_nonmultiple(self, case):
        v = Verdict()
        period, unit = tuple(case['period']), case['unit']
        a, b = dur_in(case['a_ns'], unit), dur_in(case['b_ns'], unit)
        if a is None or b is None:
            v.skip = 'duration not printable in that unit'
            return v
        op = case['op']
        iv = '[%s%s,%s%s]' % (a, unit, b, unit)
        text = '(%s%s (x >= 1))' % (op, iv) if op not in ('since', 'until') else '((x >= 1) %s%s (y >= 1))' % (op, iv)
        online = case['online']
        v.nontrivial = True
        v.info['nonmultiple:' + op] = 1
        data = case['data']
        got = None
        try:
            Pns = period_ns(period)
            if not online and Pns % 20 == 0 and case['a_ns'] % (Pns // 20) == 0 and case['b_ns'] % (Pns // 20) == 0 \
                    and (case['a_ns'] + case['b_ns']) % 3 != 0:
                # the object was first used under a period of which the bounds ARE multiples (a twentieth of the real
                # one) and re-configured afterwards: the check belongs to every evaluation, not to the first one
                m = drive.Mon('dt', {'text': text, 'vars': ['x', 'y'], 'period': (Pns // 20, 'ns', 0.1)})
                try:
                    m.evaluate(drive.dt_dataset(data))
                    m.spec.set_sampling_period(period[0], period[1], 0.1)
                    v.info['nonmultiple:after-a-compatible-period'] = 1
                except Exception:
                    m = drive.Mon('dt', {'text': text, 'vars': ['x', 'y'], 'period': (period[0], period[1], 0.1)})
                got = m.evaluate(drive.dt_dataset(data))
            else:
                m = drive.Mon('dt', {'text': text, 'vars': ['x', 'y'], 'period': (period[0], period[1], 0.1)},
                              pastify=(online and op in ('eventually', 'always', 'until')))
            if got is not None:
                pass
            elif online:
                got = m.update(0, [('x', data['x'][0]), ('y', data['y'][0])])
            else:
                got = m.evaluate(drive.dt_dataset(data))
        except Exception as e:
            if not drive.is_rtamt_exc(e):
                v.bad('nonmultiple-wrong-exception:' + type(e).__name__, '%s with period %s%s raised %s: %s (expected '
                      'RTAMTException)' % (text, period[0], period[1], type(e).__name__, e))
            return v
        known = None
        v.bad('nonmultiple-accepted', '%s with period %s%s (bound not a multiple of the period) was evaluated%s: %r' % (
            text, period[0], period[1], ' after pastify()' if known else '', got), known)
        return v

    def judge_dense(self, case):
        import random
        v = Verdict()
        f, unit, mode = case['formula'], case['unit'], case['mode']
        sig = dict((k, [(Fr(t).limit_denominator(1 << 20), val) for t, val in s]) for k, s in case['signals'].items())
        names = sorted(sig)
        try:
            exp = ref_dense.evaluate(f, sig)
        except refd.Undefined:
            v.skip = 'reference undefined (domain error)'
            return v
        rel = rel_for(f)
        v.nontrivial = True
        v.info['dense:%s:%s' % (unit, mode)] = 1
        # bounds are given in seconds (multiples of 1/4): a "sample" of the speller is 1/4 s
        q = U['s'] // 4
        fq = lang.map_formula(f, lambda g: g if (lang.is_leaf(g) or g[1] is None) else
                              (g[0], (int(g[1][0] * 4), int(g[1][1] * 4))) + g[2:])
        sp = Speller(random.Random(case['sseed']), q, unit, mode)
        try:
            text = lang.to_text(fq, ivl_printer=sp.ivl)
        except ValueError:
            v.skip = 'duration not printable'
            return v
        scale = Fr(U['s'], U[unit])
        sig2 = dict((k, [(t * scale, val) for t, val in s]) for k, s in sig.items())
        try:
            base = drive.ct_offline(lang.to_text(f), names, sig)
        except Exception as e:
            v.skip = 'canonical notation raised %s' % type(e).__name__
            return v
        try:
            got = drive.ct_offline(text, names, sig2, sd={'unit': unit})
        except Exception as e:
            v.bad('dense-notation-raises:' + type(e).__name__, '%s [unit=%s] raised %s: %s' % (
                text, unit, type(e).__name__, e))
            return v
        end = min(s[-1][0] for s in sig.values())
        resc = [[s[0] / float(scale), s[1]] for s in got]
        for t in ref_dense.probe_times(exp, base + resc, Fr(0), end):
            if exp.at(t) != exp.at(t):
                continue
            a, b = ref_dense.out_value(resc, t), ref_dense.out_value(base, t)
            if b is None:
                continue
            if a is None or not refd.same(a, b, rel):
                v.bad('dense-notation-differs:' + mode, '%s [unit=%s, stamps x%s] gives %r at t=%s s, canonical %s gives '
                      '%r; signals=%s' % (text, unit, scale, a, float(t), lang.to_text(f), b, case['signals']))
                break
        return v


PROP = C08()
