"""C02 — discrete-time online update() #i equals offline robustness at sample i (past fragment)."""
from rtverif import lang, drive
from rtverif import ref_discrete as ref
from rtverif.props.base import Prop, Verdict, fmt, first_diff
from rtverif.props.c01 import rel_for


def past_cfg(rng, **kw):
    nv = rng.choice([1, 2, 2, 3])
    c = lang.GenCfg(vars=list(lang.VAR_POOL[:nv]), max_depth=rng.choice([1, 2, 3, 3, 4, 5]), future=False,
                    max_bound=rng.choice([2, 4, 8, 12]))
    r = rng.random()
    c.wide = 0.05
    if r < 0.15:
        c.transcend = True
    if r > 0.8:
        c.untyped = 0.2
    c.__dict__.update(kw)
    return c


class C02(Prop):
    id = 'C02'
    rule_added = "10% of the cases are 'near twins': f1 o f2, the same formula with one constant moved by different amounts below 1e-6. 12% under an interface-aware semantics with a random io assignment on both monitors."
    rule = ('random past-time STL formulas (Boolean, arithmetic, once/historically/since bounded and unbounded, '
            'prev/s_prev, rise/fall; depth<=5; 35% of cases with a sub-formula text deliberately duplicated) x random '
            'traces of 1..40 samples: a fresh online spec is fed sample by sample and update #i is compared with '
            'evaluate() of a fresh offline spec on the whole trace and on sampled prefixes. distinct = hash of '
            '(formula, data); non-trivial = >=1 stateful operator and >=3 updates.')
    assumptions = ['comparator is the real offline monitor (literal statement); the reference semantics is used '
                   'only to attribute which side is wrong and to mark NaN positions as do-not-care']
    floors = {'quick': (300, 100), 'thorough': (5000, 2000)}
    must_reach = ['online/ast_visitor:StlDiscreteTimeOnlineAstVisitor.visitPredicate']
    quick_cases = 2000
    thorough_cases = 1200000

    def gen(self, rng, ctx):
        c = past_cfg(rng)
        if rng.random() < 0.35:
            c.dup = 0.35
        f = lang.gen_formula(rng, c)
        if rng.random() < 0.1:
            f = lang.with_near_twin(rng, f)
        n = rng.choice([1, 2, 3, 4, 5, 6, 8, 10, 13, 20, 40]) if rng.random() < 0.7 else rng.randint(1, 40)
        names = lang.variables(f) or [c.vars[0]]
        case = {'formula': f, 'data': lang.gen_trace(rng, names, n),
                'online_kind': rng.choice(['dt', 'dt', 'dt_on'])}
        if rng.random() < 0.12:
            # an interface-aware semantics with a random io assignment on both monitors; small-integer data, so that
            # values sit on the thresholds of strict and non-strict comparisons
            from rtverif.props.c06 import SEMS
            case['ia'] = [rng.choice(SEMS[1:]), dict((k, rng.choice(['input', 'output'])) for k in names)]
            case['online_kind'] = 'dt'
            case['data'] = dict((k, [rng.choice([0.0, 1.0, 2.0, 3.0, -1.0, 0.5, 1.5]) for _ in range(n)]) for k in names)
        if rng.random() < 0.03:
            # a wide window (13..200 samples) on a trace longer than it: samples slide out of the window, spikes sit on
            # the sample that has just expired, equal extrema occur several times
            N, V, C = lang.N, lang.V, lang.C
            w = lang.wide_width(rng)
            a = rng.choice([0, 0, 2, 7])
            o = rng.choice(['once', 'historically'])
            opd = rng.choice([V('x'), N('geq', V('x'), C(1.0)), N('sub', V('x'), C(2.0))])
            f = N(o, opd, ivl=(a, a + w))
            if rng.random() < 0.4:
                f = N(rng.choice(['and', 'or']), f, N('once', N('leq', V('x'), C(0.0)), ivl=(0, 3)))
            n = a + w + rng.randint(5, 60)
            xs = lang.gen_values(rng, n, rng.choice(['tiny', 'steps', 'spiky']))
            for i in rng.sample(range(n), 3):
                xs[i] = rng.choice([100.0, -100.0])
            xs[0] = rng.choice([100.0, -100.0, xs[0]])
            case.pop('ia', None)
            case.update({'formula': f, 'data': {'x': xs}, 'wide_long': True})
        return case

    def classify(self, case, mech, detail):
        return None

    def judge(self, case):
        v = Verdict()
        f, data = case['formula'], case['data']
        if case.get('wide_long'):
            v.info['class:wide-window-on-a-longer-trace'] = 1
        names = sorted(data)
        n = len(data[names[0]])
        text = lang.to_text(f)
        sd = None
        try:
            if case.get('ia'):
                from rtverif.props.c06 import hook_discrete
                sd = {'semantics': case['ia'][0], 'io': case['ia'][1]}
                exp = ref.evaluate(f, data, n, pred_hook=hook_discrete(case['ia'][0], case['ia'][1]))
                v.info['class:interface-aware'] = 1
            else:
                exp = ref.evaluate(f, data, n)
        except ref.Undefined:
            v.skip = 'reference undefined (domain error)'
            return v
        rel = rel_for(f)
        v.nontrivial = lang.has_stateful(f) and n >= 3
        dupl = lang.duplicate_stateful_subterms(f)
        v.info['class:dup' if dupl else 'class:nodup'] = 1
        for o in lang.ops_of(f):
            v.info['op:' + o] = 1
        try:
            off = drive.values(drive.dt_offline(text, names, data, n, sd=sd))
        except Exception as e:
            v.skip = 'offline comparator raised %s' % type(e).__name__
            return v
        # NaN positions of the offline result are don't-care as well
        cmp_exp = [o if (e == e) else e for o, e in zip(off, exp)]
        try:
            on = drive.dt_online(text, names, data, n, kind=case.get('online_kind', 'dt'), sd=sd)
        except Exception as e:
            v.bad('raises:' + type(e).__name__, '%s: online update raised %s: %s' % (text, type(e).__name__, e),
                  self.classify(case, 'raises', type(e).__name__))
            return v
        i = first_diff(on, cmp_exp, rel)
        if i is not None:
            side = 'online wrong' if first_diff(off, exp, rel) is None else 'offline differs from reference too'
            v.bad('online!=offline', '%s data=%s: update #%d returned %r, offline evaluate()[%d]=%r, reference %r (%s)'
                  % (text, data, i, on[i], i, off[i], exp[i], side), self.classify(case, 'value', ''))
            return v
        # prefix evaluation: offline on w[0..k] at k (function of the samples fed so far)
        for k in sorted(set([0, n // 2, n - 1])):
            try:
                offk = drive.values(drive.dt_offline(text, names, data, k + 1, sd=sd))
            except Exception as e:
                continue
            expk = ref.evaluate(f, data, k + 1, pred_hook=(hook_discrete(case['ia'][0], case['ia'][1])
                                                           if case.get('ia') else None))
            if not ref.same(on[k], offk[k] if expk[k] == expk[k] else expk[k], rel):
                v.bad('online!=offline-on-prefix', '%s data=%s: update #%d returned %r but offline on the %d-sample '
                      'prefix gives %r' % (text, data, k, on[k], k + 1, offk[k]))
                break
        return v


    def long_runs(self, ctx):
        """A few online monitors fed for several thousand updates without reset() (memory-bounding code paths)."""
        if ctx.shard != 0:
            return
        rng = ctx.rng
        x, y = lang.V('x'), lang.V('y')
        p, q = lang.N('geq', x, lang.C(0.0)), lang.N('geq', y, lang.C(1.0))
        forms = [lang.N('since', p, q, ivl=(1, 3)),
                 lang.N('or', lang.N('once', p, ivl=(1, 3)), lang.N('historically', q, ivl=(0, 2))),
                 lang.N('and', lang.N('s_prev', lang.N('since', p, q, ivl=(0, 2))), lang.N('rise', p)),
                 lang.N('historically', lang.N('implies', p, lang.N('once', q, ivl=(0, 4))), ivl=(0, 4))]
        # (bounded operators only: the reference is quadratic or worse in the trace length for unbounded ones)
        n = 4300 if ctx.tier == 'quick' else 9000
        for f in forms:
            data = dict((k, [rng.choice(lang.SMALL) for _ in range(n)]) for k in ('x', 'y'))
            text = lang.to_text(f)
            exp = ref.evaluate(f, data, n)
            case = {'type': 'long-run', 'text': text, 'n': n}
            ctx.case(case, True)
            ctx.count('class:long-run', 1)
            try:
                on = drive.dt_online(text, ['x', 'y'], data, n)
            except Exception as e:
                ctx.violation('raises:' + type(e).__name__, '%s: a %d-update run raised %s: %s' % (
                    text, n, type(e).__name__, e), case)
                continue
            bad = [i for i in range(n) if exp[i] == exp[i] and not ref.same(on[i], exp[i])]
            if bad:
                i = bad[0]
                ctx.violation('online!=offline', '%s, %d updates without reset(): update #%d returned %r, reference %r '
                              '(%d updates differ)' % (text, n, i, on[i], exp[i], len(bad)), case)

    def extra(self, ctx):
        """Enumerated part: every past operator x every interval [a,b], 0<=a<=b<=4 (and unbounded), over a bare
        variable and a predicate, traces of 1..8 samples; thorough: every outer x inner pair as well."""
        self.long_runs(ctx)
        rng = ctx.rng
        x, y = lang.V('x'), lang.V('y')
        px, py = lang.N('geq', x, lang.C(1.0)), lang.N('leq', y, lang.C(0.5))
        ivls = [None] + [(a, b) for a in range(5) for b in range(a, 5)]
        forms = []
        for o in ('once', 'historically'):
            for iv in ivls:
                forms += [lang.N(o, x, ivl=iv), lang.N(o, px, ivl=iv)]
        for iv in ivls:
            forms += [lang.N('since', px, py, ivl=iv), lang.N('since', x, y, ivl=iv)]
        plain = ['prev', 's_prev', 'rise', 'fall']
        forms += [lang.N(o, g) for o in plain for g in (x, px)]
        if ctx.tier == 'thorough':
            red = [None, (0, 0), (1, 1), (0, 2), (1, 3)]
            inner = [lang.N(o, px, ivl=iv) for o in ('once', 'historically') for iv in red]
            inner += [lang.N('since', px, py, ivl=iv) for iv in red] + [lang.N(o, px) for o in plain]
            for iv in red:
                forms += [lang.N(o, g, ivl=iv) for o in ('once', 'historically') for g in inner]
                forms += [lang.N('since', g, py, ivl=iv) for g in inner] + [lang.N('since', py, g, ivl=iv) for g in inner]
            forms += [lang.N(o, g) for o in plain for g in inner]
        forms = [f for i, f in enumerate(forms) if i % ctx.nshards == ctx.shard]
        done = 0
        for f in forms:
            if ctx.out_of_time():
                ctx.notes.append('operator x interval enumeration stopped by the wall-clock budget after %d' % done)
                break
            for n in (1, 2, 3, 5, 8):
                self.check(ctx, {'formula': f, 'data': lang.gen_trace(rng, lang.variables(f), n), 'online_kind': 'dt'})
            done += 1
        ctx.count('enumerated-operator-interval-formulas', done)


PROP = C02()
