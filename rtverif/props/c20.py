"""C20 — explanations of a violation are a sufficient cause."""
import itertools
from rtverif import lang, drive
from rtverif import ref_discrete as refd
from rtverif.props.base import Prop, Verdict, fmt
from rtverif.props.c01 import rel_for

INF = float('inf')


def reported_positions(expl, names, n):
    """{(var, i)} covered by the intervals reported for the input variables."""
    R = set()
    for v in names:
        for iv in expl.get(v, []) or []:
            b, e = int(iv[0]), int(iv[1])
            for i in range(max(b, 0), min(e, n - 1) + 1):
                R.add((v, i))
    return R


def domain_for(f, data):
    """Finite value domain decisive for the predicates of f: c-1, c, c+1 for every constant, plus extremes."""
    vals = set([-8.0, 8.0, 0.0])
    for g in lang.walk(f):
        if g[0] == 'const':
            vals.update([g[2] - 1, g[2], g[2] + 1, -g[2]])
    out = sorted(vals)
    if len(out) > 5:
        idx = [0, len(out) // 4, len(out) // 2, 3 * len(out) // 4, len(out) - 1]
        out = sorted(set(out[i] for i in idx))
    return out


class C20(Prop):
    id = 'C20'
    struct_inputs = False          # explanations are keyed by variable name
    reparse_histories = False      # explain() also reports on the assertions of earlier parse() calls on the object
    rule_added = '14% of the timed formulas under a sampling period of 500 ms, 250 ms or 2 s; 9% in another unit notation (default unit ms, bounds written in s). 2%: finite samples of 1e308 whose predicate arithmetic overflows to +-inf (verdict exactly -inf at 0, caused by the data). A third of the objects have evaluated and explained an earlier recording that shares the time list with the judged one. 10%: every Boolean connective under both polarities over a range (always(not P), eventually(not P), always(P implies r), ... with P = p(x) OP q(y)). In every run 8 (thorough: 320) long traces of 130..400 samples on which a variable occurring 2-3 times toggles around its thresholds (hundreds of separate intervals per occurrence). 20% of the cases put a temporal operator behind two Boolean filters under a range context (it must explain several disjoint intervals). 12%: a named sub-specification referenced from several places of one assertion (modular specification). 6%: rise/fall over a compound operand behind a window that starts at b >= 1.'
    rule = ('random formulas of the fragment the explainer supports (no since/until; arithmetic, predicates, Boolean, '
            'rise/fall, prev/next, bounded and unbounded once/historically/eventually/always; depth<=4; variables '
            'occurring several times) x traces of 2..6 samples on StlDiscreteTimeOfflineSpecification: evaluate(); if '
            'rho(0)<0, explain(); then every re-assignment of the NON-reported (variable, sample) positions over a '
            'finite decisive value domain (c-1, c, c+1 for the constants of the formula, +-8, 0; exhaustive when '
            '<=3000 combinations, else 400 sampled + single-position flips) must still be violated at 0 (judged by '
            'the reference, every counter-example confirmed with the real evaluate()); if rho(0)>0 nothing may be '
            'reported. distinct = hash(formula, data); non-trivial = violated at 0 and >=1 free position.')
    assumptions = ['"violated at 0" is read as rho(0)<0 and "not violated" as rho(0)>0; rho(0)=0 makes no claim',
                   'the finite domain is an under-approximation of "all re-assignments" (exploration)']
    floors = {'quick': (200, 40), 'thorough': (4000, 800)}
    must_reach = ['discrete_time/explainer:LTLExplainer.visitPredicate']
    quick_cases = 2000
    thorough_cases = 600000

    def gen_multi_occurrence(self, rng):
        """One variable under several temporal windows (nested / overlapping / disjoint), combined by Boolean
        operators: the per-variable explanation has to merge the intervals of all occurrences."""
        x = lang.V(rng.choice(['x', 'y']))
        n = rng.randint(4, 10)

        def leaf():
            p = lang.N(rng.choice(['geq', 'leq', 'gt', 'lt']), x, lang.C(rng.choice([0.0, 1.0, 2.0, 3.0])))
            r = rng.random()
            if r < 0.2:
                return p
            o = rng.choice(['eventually', 'always', 'once', 'historically', 'eventually', 'always'])
            if rng.random() < 0.25:
                return lang.N(o, p)
            a = rng.randint(0, 3)
            b = rng.randint(a, min(a + 5, n))
            q = lang.N(o, p, ivl=(a, b))
            if rng.random() < 0.3:
                q = lang.N(rng.choice(['next', 'prev', 'not', 'rise', 'fall']), q)
            return q
        f = leaf()
        for _ in range(rng.randint(1, 3)):
            o = rng.choice(['or', 'and', 'implies', 'or', 'and'])
            f = lang.N(o, f, leaf()) if rng.random() < 0.5 else lang.N(o, leaf(), f)
        if rng.random() < 0.2:
            f = lang.N('not', f)
        names = lang.variables(f)
        return {'formula': f, 'data': lang.gen_trace(rng, names, n)}

    def gen_nested(self, rng):
        """Chains of 2-3 temporal operators (bounded and unbounded, past and future) over one predicate,
        optionally next to a second disjunct/conjunct: the explanation interval has to be propagated through
        every level (begin AND end of the incoming interval matter)."""
        x = lang.V(rng.choice(['x', 'y']))
        n = rng.randint(5, 10)
        f = lang.N(rng.choice(['geq', 'leq', 'gt', 'lt']), x, lang.C(rng.choice([0.0, 1.0, 2.0])))
        for _ in range(rng.randint(2, 3)):
            o = rng.choice(['eventually', 'always', 'once', 'historically', 'eventually', 'always', 'next', 'prev'])
            if o in ('next', 'prev'):
                f = lang.N(o, f)
            elif rng.random() < 0.2:
                f = lang.N(o, f)
            else:
                a = rng.randint(0, 2)
                f = lang.N(o, f, ivl=(a, rng.randint(a, a + 3)))
            if rng.random() < 0.2:
                f = lang.N('not', f)
        if rng.random() < 0.4:
            y = lang.V('z')
            g = lang.N(rng.choice(['geq', 'leq']), y, lang.C(1.0))
            f = lang.N(rng.choice(['or', 'and', 'implies']), *rng.sample([f, g], 2))
        names = lang.variables(f)
        return {'formula': f, 'data': lang.gen_trace(rng, names, n)}

    def shrinkable(self, case):
        return not case.get('modular')

    def gen_shared_name(self, rng):
        """A named sub-specification (one predicate) referenced from several places of one assertion, under different
        temporal windows and next to predicates over another variable: each reference has its own incoming
        intervals, which may fall between the segments another reference was explained over."""
        n = rng.randint(5, 9)
        pdef = lang.N(rng.choice(['geq', 'leq', 'gt', 'lt']), lang.V('x'), lang.C(rng.choice([0.0, 1.0])))
        ref = lang.V('sa')

        def leaf():
            if rng.random() < 0.3:
                base = lang.N(rng.choice(['geq', 'leq']), lang.V('y'), lang.C(rng.choice([0.0, 1.0])))
                return lang.N(rng.choice(['or', 'and', 'implies']), *rng.sample([ref, base], 2))
            return ref

        def window(g):
            o = rng.choice(['eventually', 'always', 'once', 'historically', 'eventually', 'always'])
            r = rng.random()
            if r < 0.25:
                return lang.N(o, g)
            a = rng.randint(0, 3)
            return lang.N(o, g, ivl=(a, rng.choice([a, a + 1, a + 3, n - 1])))
        vals = [-2.0, -1.0, 1.0, 2.0, 0.0, 3.0]
        if rng.random() < 0.6:
            # coherent template: a wide `always` over (name or rescue) is violated on several disjoint stretches (where
            # neither the name nor the rescue holds); a narrow window elsewhere refers to the name again
            q = lang.N(rng.choice(['geq', 'gt']), lang.V('y'), lang.C(0.0))
            wide = lang.N('always', lang.N('or', *rng.sample([ref, q], 2)), ivl=rng.choice([None, (0, n - 1), (0, n - 2)]))
            k1 = rng.randint(1, n - 2)
            narrow = lang.N(rng.choice(['eventually', 'always', 'eventually']), ref, ivl=(k1, rng.choice([k1, k1, k1 + 1])))
            top = lang.N('or', *rng.sample([wide, narrow], 2))
            f = lang.inline(top, [('sa', pdef)])
            holds = {'geq': lambda x: x >= pdef[3][2], 'leq': lambda x: x <= pdef[3][2], 'gt': lambda x: x > pdef[3][2],
                     'lt': lambda x: x < pdef[3][2]}[pdef[0]]
            bad = [x for x in vals if not holds(x)] or [-2.0]
            good = [x for x in vals if holds(x)] or [2.0]
            xs = [rng.choice(bad) if rng.random() < 0.75 else rng.choice(good) for _ in range(n)]
            ys = [rng.choice([1.0, 2.0]) if rng.random() < 0.35 else rng.choice([-1.0, -2.0]) for _ in range(n)]
            data = {'x': xs, 'y': ys}
        else:
            top = window(leaf())
            for _ in range(rng.randint(1, 2)):
                top = lang.N(rng.choice(['or', 'and', 'implies', 'or']), *rng.sample([top, window(leaf())], 2))
            f = lang.inline(top, [('sa', pdef)])
            data = dict((k, [rng.choice(vals) for _ in range(n)]) for k in lang.variables(f))
        names = lang.variables(f)
        data = dict((k, data[k]) for k in names)
        return {'formula': f, 'data': data,
                'modular': {'top': lang.to_jsonable(top), 'defs': [['sa', lang.to_jsonable(pdef)]], 'consts': [],
                            'style': rng.choice(['one-text', 'subspecs'])}}

    def gen_edge(self, rng):
        """An edge operator (rise/fall) over a compound operand, reached through a window that starts at b >= 1:
        the edge constrains its operand with one polarity at t-1 and the other at t, and t-1 is covered by nothing
        else."""
        n = rng.randint(4, 8)
        pr = lambda var: lang.N(rng.choice(['gt', 'geq', 'lt', 'leq']), lang.V(var), lang.C(0.0))
        r = rng.random()
        if r < 0.45:
            comp = lang.N(rng.choice(['or', 'and', 'implies']), pr('x'), pr('y'))
        elif r < 0.7:
            comp = lang.N(rng.choice(['eventually', 'always', 'once', 'historically']), pr('x'), ivl=(0, rng.choice([1, 2])))
        else:
            comp = lang.N(rng.choice(['or', 'and']), pr('x'), lang.N('not', pr('y')))
        e = lang.N(rng.choice(['fall', 'rise', 'fall']), comp)
        if rng.random() < 0.4:
            e = lang.N('not', e)
        b = rng.randint(1, 2)
        w = rng.random()
        if w < 0.4:
            f = lang.N(rng.choice(['eventually', 'always']), e, ivl=(b, b + rng.randint(0, 2)))
        elif w < 0.6:
            f = lang.N('next', e) if b == 1 else lang.N('next', lang.N('next', e))
        elif w < 0.8:
            f = lang.N(rng.choice(['and', 'or']), lang.N('next', e), pr(rng.choice(['x', 'y'])))
        else:
            f = lang.N(rng.choice(['eventually', 'always']), e)
        vals = [-2.0, -1.0, 1.0, 2.0, 0.0]
        return {'formula': f, 'data': dict((k, [rng.choice(vals) for _ in range(n)]) for k in lang.variables(f))}

    def gen_filtered(self, rng):
        """A temporal operator reached through Boolean filters under a range context:
        OUT( p1 B1 ( p2 B2 T(p3) ) ). The filters forward only the stretches where their other operand does not
        decide, so T is asked to explain several disjoint intervals at once, each of which needs its own cause."""
        n = rng.randint(6, 9)
        pred = lambda var: lang.N(rng.choice(['gt', 'lt', 'geq', 'leq']), lang.V(var), lang.C(rng.choice([0.0, -1.0, 1.0])))
        tmp = lambda g, names_: (lang.N(rng.choice(names_), g) if rng.random() < 0.7 else
                                 (lambda a: lang.N(rng.choice(names_), g, ivl=(a, a + rng.randint(0, 4))))(rng.randint(0, 2)))
        if rng.random() < 0.6:
            # coherent template: the two filters test the same toggling variable with opposite polarity, the
            # context and the inner operator are unbounded future operators (or span the whole trace)
            pos = rng.random() < 0.5
            p1 = lang.N('gt' if pos else 'lt', lang.V('x'), lang.C(0.0))
            p2 = lang.N('lt' if pos else 'gt', lang.V('x'), lang.C(-1.0 if pos else 1.0))
            p3 = lang.N(rng.choice(['gt', 'lt']), lang.V('y'), lang.C(0.0))
            inner = lang.N(rng.choice(['always', 'eventually']), p3)
            mid = lang.N(rng.choice(['or', 'and', 'implies']), *rng.sample([p2, inner], 2))
            top = lang.N(rng.choice(['and', 'or', 'implies']), *rng.sample([p1, mid], 2))
            o = rng.choice(['eventually', 'always'])
            f = lang.N(o, top) if rng.random() < 0.5 else lang.N(o, top, ivl=(0, n - rng.randint(1, 3)))
        else:
            inner = tmp(pred('y'), ['always', 'eventually', 'always', 'eventually', 'once', 'historically'])
            mid = lang.N(rng.choice(['or', 'and', 'implies']), *rng.sample([pred('x'), inner], 2))
            top = lang.N(rng.choice(['and', 'or', 'implies']), *rng.sample([pred(rng.choice(['x', 'x', 'z'])), mid], 2))
            if rng.random() < 0.15:
                top = lang.N('not', top)
            f = tmp(top, ['eventually', 'always', 'eventually', 'always', 'once', 'historically'])
        names = lang.variables(f)
        vals = [-2.0, -1.0, 1.0, 2.0, -3.0, 3.0, 0.0]
        data = dict((k, [rng.choice(vals) for _ in range(n)]) for k in names)
        if rng.random() < 0.7:
            # x toggles (so the filters cut the context into disjoint stretches); y is mostly of one sign with a few
            # exceptions, one of them late (so that a late sample is the only cause for the late stretches)
            hi, lo, ph = rng.choice([1.0, 2.0]), rng.choice([-2.0, -3.0]), rng.randint(0, 1)
            for k in names:
                if k != 'y':
                    data[k] = [(hi if (i + ph) % 2 == 0 else lo) if rng.random() < 0.85 else rng.choice(vals) for i in range(n)]
            if 'y' in data:
                sgn = rng.choice([1.0, -1.0])
                ys = [sgn * rng.choice([1.0, 2.0, 3.0]) for _ in range(n)]
                for i in rng.sample(range(n), rng.randint(1, 2)) + [rng.randint(n - 3, n - 1)]:
                    ys[i] = -sgn * rng.choice([1.0, 2.0])
                data['y'] = ys
        return {'formula': f, 'data': data}

    def gen_long(self, rng):
        """Long traces (130..400 samples) on which a variable that occurs two or three times toggles around the
        thresholds, so that the explanation of one occurrence consists of very many separate intervals before the
        next occurrence is explained (what a size-triggered compaction of the collected intervals would meet)."""
        n = rng.choice([130, 160, 200, 260, 400])
        a, b = lang.V('x'), lang.V('y')
        hi, lo = rng.choice([10.0, 3.0, 5.0]), rng.choice([0.0, -1.0, 1.0])
        pa1 = lang.N(rng.choice(['geq', 'gt']), a, lang.C(lo))
        pa2 = lang.N(rng.choice(['leq', 'lt']), a, lang.C(hi))
        pb = lang.N(rng.choice(['geq', 'leq']), b, lang.C(0.0))
        parts = [pa1, pb, pa2] if rng.random() < 0.6 else [pa1, pa2, lang.N('not', pa1)][:rng.choice([2, 3])] + [pb]
        if rng.random() < 0.4:
            rng.shuffle(parts)
        body = parts[0]
        for q in parts[1:]:
            body = lang.N('and', body, q)
        r = rng.random()
        if r < 0.5:
            f = lang.N('eventually', body)
        elif r < 0.75:
            f = lang.N('eventually', body, ivl=(0, n - rng.randint(1, 5)))
        else:
            f = lang.N('not', lang.N('always', lang.N('not', body)))
        below, above, inside = lo - rng.choice([1.0, 2.0]), hi + rng.choice([1.0, 10.0]), (lo + hi) / 2.0
        ph = rng.randint(0, 1)
        xs = [(below if (i + ph) % 2 == 0 else above) if rng.random() < 0.97 else rng.choice([below, above]) for i in range(n)]
        ys = [rng.choice([1.0, 2.0, -1.0, 0.5]) for _ in range(n)]
        return {'formula': f, 'data': {'x': xs, 'y': ys}, 'long': True}

    def gen_wide_tail(self, rng):
        """A wide window (65..200 samples, not a multiple of a power of two) whose only violating samples lie in its
        last few positions (or its first few): what a block-wise scan of the window must not miss."""
        N, V, C = lang.N, lang.V, lang.C
        w = rng.choice([65, 70, 99, 100, 127, 130, 150, 200])
        a = rng.choice([0, 0, 0, 3])
        n = a + w + rng.randint(1, 12)
        px = N('gt', V('x'), C(0.0))
        tail = rng.random() < 0.7
        bad = sorted(rng.sample(range(a + w - min(5, w % 64 or 5), a + w + 1) if tail else range(a, a + 4), rng.randint(1, 2)))
        xs = [rng.choice([1.0, 2.0, 3.0]) for _ in range(n)]
        for i in bad:
            if i < n:
                xs[i] = rng.choice([0.0, -1.0])
        r = rng.random()
        if r < 0.4:
            f = N('always', px, ivl=(a, a + w))
        elif r < 0.6:
            f = N('not', N('eventually', N('leq', V('x'), C(0.0)), ivl=(a, a + w)))
        elif r < 0.8:
            f = N('and', N('always', px, ivl=(a, a + w)), N('geq', V('y'), C(-5.0)))
        else:
            # the past flavour, reached from time 0 through a punctual look-ahead
            f = N('eventually', N('historically', px, ivl=(0, w)), ivl=(a + w, a + w))
        data = {'x': xs}
        if 'y' in lang.variables(f):
            data['y'] = [rng.choice([1.0, 0.0, 2.0]) for _ in range(n)]
        return {'formula': f, 'data': data, 'long': True, 'wide_tail': True}

    def gen_polarity(self, rng):
        """Every Boolean connective under both polarities over a range: `always(not P)`, `eventually(not P)`,
        `always(P implies r)`, `always(r or not P)`, `not eventually P` with P = p(x) OP q(y) - violated at 0 because P
        holds (or fails) on a stretch of samples, at some of which only one operand is responsible."""
        N, V, C = lang.N, lang.V, lang.C
        o = rng.choice(['and', 'or', 'implies', 'iff', 'xor'])
        p = N(rng.choice(['geq', 'lt', 'gt', 'leq']), V('x'), C(0.0))
        q = N(rng.choice(['geq', 'lt', 'gt', 'leq']), V('y'), C(0.0))
        P = N(o, p, q)
        if rng.random() < 0.25:
            P = N('not', P)
        r = N(rng.choice(['geq', 'lt']), V('z'), C(0.0))
        n = rng.randint(3, 7)
        ctxs = [lambda: N('always', N('not', P)), lambda: N('eventually', N('not', P)),
                lambda: N('always', N('implies', P, r)), lambda: N('always', N('or', r, N('not', P))),
                lambda: N('not', N('eventually', P)), lambda: N('always', N('not', P), ivl=(0, n - rng.randint(1, 2))),
                lambda: N('eventually', N('and', N('not', P), r)),
                lambda: N('eventually', N('historically', N('not', P), ivl=(0, 1)), ivl=(1, n - 1))]
        f = rng.choice(ctxs)()
        names = lang.variables(f)
        vals = [-2.0, -1.0, 1.0, 2.0]
        data = dict((k, [rng.choice(vals) for _ in range(n)]) for k in names)
        return {'formula': f, 'data': data}

    def gen_overflow(self, rng):
        """Finite but huge samples (1e308): the arithmetic of a predicate overflows to +-inf, so the verdict at 0 is
        exactly -inf although it is caused by the data - the explanation still has to name it."""
        N, V, C = lang.N, lang.V, lang.C
        n = rng.randint(3, 7)
        k = rng.randrange(n)
        c0 = rng.choice([100.0, 5.0])
        data = {'x': [rng.choice([1.0, 2.0, -1.0]) for _ in range(n)], 'y': [rng.choice([1.0, 0.0, 3.0]) for _ in range(n)]}
        r = rng.random()
        if r < 0.35:
            f = N('always', N('leq', N('add', V('x'), V('y')), C(c0)))
            data['x'][k] = data['y'][k] = 1e308
        elif r < 0.6:
            f = N('always', N('leq', N('mul', C(10.0), V('x')), C(c0)))
            data['x'][k] = 1e308
        elif r < 0.8:
            f = N('not', N('eventually', N('geq', N('sub', V('x'), V('y')), C(c0))))
            data['x'][k], data['y'][k] = 1e308, -1e308
        else:
            f = N('and', N('always', N('geq', N('mul', V('x'), C(10.0)), C(-c0))), N('geq', V('y'), C(-5.0)))
            data['x'][k] = -1e308
        return {'formula': f, 'data': data, 'overflow': True}

    def gen_shifted_terms(self, rng):
        """A predicate that relates a one-step shifted copy of a variable (prev/next/s_prev/s_next of a *term*) with
        the variable itself or with another one - `always((next x) >= (x - 2))`, `always(abs((prev x) - y) <= 1)`:
        the shifted operand is explained over intervals moved by one sample, its sibling over the unmoved ones, whatever
        the order of the operands."""
        N, V, C = lang.N, lang.V, lang.C
        n = rng.randint(4, 8)
        a = V('x')
        b = V('x') if rng.random() < 0.5 else V('y')
        sh = N(rng.choice(['next', 'prev', 's_next', 's_prev', 'next', 'prev']), a)
        if rng.random() < 0.25:
            sh = N(rng.choice(['abs', 'neg']), sh)
        c0 = rng.choice([1.0, 2.0, 3.0])
        r = rng.random()
        if r < 0.35:
            rhs = N(rng.choice(['sub', 'add']), b, C(c0))
            sides = [sh, rhs]
        elif r < 0.7:
            d = N(rng.choice(['sub', 'add', 'mul']), *(rng.sample([sh, b], 2)))
            sides = [N('abs', d) if rng.random() < 0.5 else d, C(c0)]
        else:
            sides = [sh, b]
        if rng.random() < 0.35:
            sides.reverse()
        p = N(rng.choice(['geq', 'leq', 'gt', 'lt']), *sides)
        w = rng.random()
        if w < 0.4:
            f = N(rng.choice(['always', 'eventually']), p)
        elif w < 0.7:
            k = rng.randint(0, 2)
            f = N(rng.choice(['always', 'eventually']), p, ivl=(k, rng.randint(k, n - 1)))
        elif w < 0.85:
            f = N(rng.choice(['and', 'or']), *rng.sample([N('always', p), N(rng.choice(['geq', 'leq']), V('z'), C(0.0))], 2))
        else:
            f = N('not', N(rng.choice(['always', 'eventually']), N('not', p)))
        vals = [0.0, 1.0, 2.0, 5.0, -1.0, 3.0]
        return {'formula': f, 'data': dict((k, [rng.choice(vals) for _ in range(n)]) for k in lang.variables(f)),
                'shifted_terms': True}

    def gen(self, rng, ctx):
        r = rng.random()
        if r < 0.02:
            return self.gen_overflow(rng)
        if 0.64 <= r < 0.70:
            return self.gen_shifted_terms(rng)
        if 0.70 <= r < 0.715:
            return self.gen_wide_tail(rng)
        if r < 0.06:
            return self.gen_edge(rng)
        if r > 0.9:
            return self.gen_polarity(rng)
        if r < 0.16:
            return self.gen_shared_name(rng)
        if r < 0.32:
            return self.gen_filtered(rng)
        if r < 0.42:
            return self.gen_nested(rng)
        if r < 0.64:
            return self.gen_multi_occurrence(rng)
        nv = rng.choice([1, 2, 2, 3])
        c = lang.GenCfg(vars=list(lang.VAR_POOL[:nv]), max_depth=rng.choice([1, 2, 2, 3, 4, 5]), since_until=False,
                        max_bound=rng.choice([1, 2, 3]), div=False)
        if rng.random() < 0.3:
            c.arith = False
        f = lang.gen_formula(rng, c)
        names = lang.variables(f) or [c.vars[0]]
        n = rng.choice([1, 2, 3, 4, 5, 6, 7, 8])
        return {'formula': f, 'data': lang.gen_trace(rng, names, n)}

    def classify(self, f):
        return None

    def judge(self, case):
        v = Verdict()
        f, data = case['formula'], case['data']
        names = sorted(data)
        n = len(data[names[0]])
        text = lang.to_text(f)
        if lang.ops_of(f) & set(['since', 'until', 'unless', 'ln', 'log']):
            v.skip = 'outside the explainer fragment'
            return v
        try:
            exp = refd.evaluate(f, data, n)
        except refd.Undefined:
            v.skip = 'reference undefined (domain error)'
            return v
        if exp[0] != exp[0] or exp[0] == 0:
            v.skip = 'rho(0) is NaN or 0: no claim'
            return v
        sd = {'text': text, 'vars': names}
        if (len(text) + 2 * n) % 11 == 0 and not case.get('modular') and any(g[1] is not None for g in lang.walk(f)):
            # the same durations in another notation: default unit ms, every bound written in seconds (the sampling
            # period stays 1 s, so the bounds are the same numbers of samples)
            sd = {'text': lang.to_text(f, ivl_printer=lambda i: '[%ss:%ss]' % (lang.num(i[0]), lang.num(i[1]))),
                  'vars': names, 'unit': 'ms'}
            v.info['class:unit-notation'] = 1
        elif (len(text) + n) % 7 == 0 and not case.get('modular') and any(g[1] is not None for g in lang.walk(f)):
            # another sampling period: the bounds (numbers of samples) written as durations in s
            import random as _r
            from rtverif.props.c08 import Speller, U as _U
            per = [(500, 'ms'), (2, 's'), (250, 'ms')][(len(text) // 7) % 3]
            try:
                sd = {'text': lang.to_text(f, ivl_printer=Speller(_r.Random(0), per[0] * _U[per[1]], 's', 'default').ivl),
                      'vars': names, 'period': (per[0], per[1], 0.1)}
                v.info['class:sampling-period'] = 1
            except ValueError:
                sd = {'text': text, 'vars': names}
        if case.get('modular'):
            from rtverif.props.c09 import modular_sd
            sd = modular_sd(case['modular'], names)
            v.info['class:modular'] = 1
        try:
            m = drive.Mon('dt_off', sd)
            ds = drive.dt_dataset(data)
            if (len(text) + n) % 3 == 0 and n >= 2:
                # the object has evaluated and explained an earlier recording on the SAME time axis (one shared list
                # object, as when a data dictionary is edited in place between two recordings)
                import random as _r
                r0 = _r.Random(len(text) * 131 + n)
                d0 = dict((k, [r0.choice(col) for _ in col]) for k, col in ds.items() if k != 'time')
                d0['time'] = ds['time']
                try:
                    m.evaluate(d0)
                    m.explain()
                    v.info['class:earlier-recording-explained-on-the-same-time-axis'] = 1
                except Exception:
                    m = drive.Mon('dt_off', sd)
            res = m.evaluate(ds)
        except Exception as e:
            v.skip = 'evaluate raised %s' % type(e).__name__
            return v
        rho0 = res[0][1]
        if not refd.same(rho0, exp[0], rel_for(f)):
            v.skip = 'evaluate disagrees with the reference (C01)'
            return v
        v.info['class:' + ('violated' if rho0 < 0 else 'satisfied')] = 1
        if case.get('shifted_terms'):
            v.info['class:shifted-term-in-predicate'] = 1
        if case.get('wide_tail'):
            v.info['class:wide-window-violated-at-its-end'] = 1
        known = self.known_for(f)
        try:
            m.explain()
            if len(text) % 4 == 0:
                # the report is built after all requirements were explained: another offline specification (violated
                # as well) is evaluated and explained before this one's explanation is read
                other = drive.Mon('dt_off', {'text': '(always (%s >= 100))' % names[-1], 'vars': names})
                other.evaluate(drive.dt_dataset(data))
                other.explain()
                v.info['class:another-object-explained-before-reading'] = 1
            expl = m.spec.explainer.explanations
        except Exception as e:
            v.bad('explain-raises:' + type(e).__name__, '%s data=%s (rho(0)=%r): explain() raised %s: %s' % (
                text, data, rho0, type(e).__name__, e), known)
            return v
        R = reported_positions(expl, names, n)
        if rho0 > 0 and case.get('modular'):
            # explain() covers every assertion of the specification, the named sub-specifications included: nothing
            # may be reported only if none of them is violated at time 0 either
            for nm, g in case['modular']['defs']:
                g = lang.inline(lang.from_jsonable(g), [(a, lang.from_jsonable(b)) for a, b in case['modular']['defs']])
                try:
                    r = refd.evaluate(g, data, n)[0]
                except refd.Undefined:
                    r = float('nan')
                if not r > 0:
                    v.info['modular-satisfied-but-a-sub-specification-is-not'] = 1
                    return v
        if rho0 > 0:
            if R:
                v.bad('reported-when-satisfied', '%s data=%s: rho(0)=%r > 0 but explain() reports %s' % (
                    text, data, rho0, dict((k, expl.get(k)) for k in names)))
            return v
        free = [(k, i) for k in names for i in range(n) if (k, i) not in R]
        v.nontrivial = bool(free)
        v.info['free-positions'] = len(free)
        if not free:
            return v
        dom = domain_for(f, data)
        total = len(dom) ** len(free)
        import random
        rng = random.Random(len(text) * 7919 + n)
        if total <= 3000:
            combos = itertools.product(dom, repeat=len(free))
            v.info['exhaustive-cases'] = 1
        elif len(free) > 60:
            # long traces: all free positions (of one variable / of all variables) set to one value of the domain,
            # a sample of single-position flips, random re-assignments
            v.info['class:long-trace'] = 1
            base = [data[k][i] for (k, i) in free]
            combos = []
            for d in dom:
                combos.append(tuple(d for _ in free))
                for k0 in names:
                    combos.append(tuple(d if k == k0 else b0 for (k, i), b0 in zip(free, base)))
            for j in rng.sample(range(len(free)), min(len(free), 80)):
                for d in dom:
                    c1 = list(base)
                    c1[j] = d
                    combos.append(tuple(c1))
            combos += [tuple(rng.choice(dom) for _ in free) for _ in range(200)]
        else:
            flips = []
            for j in range(len(free)):
                for d in dom:
                    base = [data[k][i] for (k, i) in free]
                    base[j] = d
                    flips.append(tuple(base))
            combos = flips + [tuple(rng.choice(dom) for _ in free) for _ in range(400)]
        checked = 0
        for combo in combos:
            nd = dict((k, list(vals)) for k, vals in data.items())
            for (k, i), val in zip(free, combo):
                nd[k][i] = val
            checked += 1
            try:
                r0 = refd.evaluate(f, nd, n)[0]
            except refd.Undefined:
                continue
            if r0 == r0 and r0 > 0:
                try:
                    real0 = drive.Mon('dt_off', {'text': text, 'vars': names}).evaluate(drive.dt_dataset(nd))[0][1]
                except Exception:
                    continue
                if real0 > 0:
                    v.info['reassignments-checked'] = checked
                    v.bad('not-sufficient', '%s data=%s: rho(0)=%r, explain() reports %s; the trace %s agrees with the '
                          'original on every reported position but is satisfied at 0 (rho(0)=%r)' % (
                              text, data, rho0, dict((k, expl.get(k)) for k in names), nd, real0), known)
                    return v
        v.info['reassignments-checked'] = checked
        return v

    def known_for(self, f):
        return None

    def shrinkable(self, case):
        return not case.get('modular') and not case.get('long')

    def extra(self, ctx):
        k = 8 if ctx.tier == 'quick' else max(2, 320 // ctx.nshards)
        for _ in range(k):
            if ctx.out_of_time():
                break
            self.check(ctx, self.gen_long(ctx.rng))


PROP = C20()
