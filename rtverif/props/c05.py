"""C05 — dense-time online output does not depend on how the input is chunked."""
from fractions import Fraction as Fr
import itertools
from rtverif import lang, drive, findings
from rtverif import ref_discrete as refd
from rtverif import ref_dense as ref
from rtverif.props.base import Prop, Verdict, fmt
from rtverif.props.c01 import rel_for
from rtverif.props.c04 import sig_text, sig_from_json


def all_splits(n):
    """All 2^(n-1) ways to cut range(n) into consecutive non-empty batches, as lists of cut points."""
    for mask in range(1 << (n - 1)):
        cuts = [i + 1 for i in range(n - 1) if mask >> i & 1]
        yield cuts


def batches(samples, cuts):
    out, a = [], 0
    for c in list(cuts) + [len(samples)]:
        out.append(samples[a:c])
        a = c
    return out


def run_schedule(text, names, sig, sched, pastify=False, kind='ct', sd_extra=None):
    """sched: {var: cuts}. Variables are fed together: update k carries the k-th batch of every variable
    that still has one (all variables have the same number of batches in an aligned schedule)."""
    m = drive.Mon(kind, dict({'text': text, 'vars': names}, **(sd_extra or {})), pastify=pastify)
    if 'interleaved' in sched:
        # asynchronous sources: update k carries the next batch of some variables only; the others are omitted
        # from the call or passed with an empty batch
        outs = []
        for i, u in enumerate(sched['interleaved']):
            args = []
            for k in names:
                if k in u:
                    a, b = u[k]
                    args.append([k, [[float(t), float(v)] for (t, v) in sig[k][a:b]]])
                elif i == 0 or not u or sched['absent'] == 'empty' or (sched['absent'] == 'mixed' and (i + len(k)) % 2):
                    # (the first call names every variable: before it the monitor holds no batch at all for them)
                    args.append([k, []])
            outs.append(m.update(*args))
        return outs
    per = dict((k, batches(sig[k], sched[k])) for k in names)
    nb = max(len(b) for b in per.values())
    outs = []
    for i in range(nb):
        args = []
        for k in names:
            if i < len(per[k]):
                args.append([k, [[float(t), float(v)] for (t, v) in per[k][i]]])
        outs.append(m.update(*args))
    return outs


class C05(Prop):
    id = 'C05'
    rule_added = '30% of the pastified cases as modular specifications. In every run 2 (thorough 48) signals of 501-760 samples fed in one update and cut at/around sample 500. Enumerated in every run: every binary operation (+ - * / pow log, and or implies iff xor, since, since[a,b]) with its operands on two variables that have their own sampling instants, first stamps and batch boundaries (per-variable and interleaved schedules). 35-50% of the cases add interleaved-source schedules (an update carries batches of some variables only, the others omitted or empty; idle polls). 12% under an interface-aware semantics (half: an overridden equality predicate on values mirrored around its constant). 10% of the aligned cases feed the inputs as fields of one object-typed variable.'
    rule = ('random past dense-time formulas (and, pastified, bounded-future ones) x signals of 2..8 samples per '
            'variable x schedules {all-at-once, one sample at a time, 3 random aligned chunkings, 1 random '
            'per-variable chunking} (thorough: all 2^(n-1) aligned chunkings for n<=6): the concatenated update() '
            'outputs must have non-decreasing stamps, agree as a step function with the real dense offline result '
            '(shifted by h after pastify) at every probe time they cover, and any two schedules must agree where '
            'both cover. distinct = hash(formula, signals, schedules); non-trivial = >=1 stateful operator and a '
            'schedule with >=2 updates.')
    assumptions = ['the concatenation is read as a step function in which a later sample wins at an equal stamp and '
                   'which covers [first stamp, last stamp]; nothing is demanded outside what a schedule covers',
                   'interleaved-source schedules: a variable without new samples is omitted from the call or passed with '
                   'an empty batch; the first call names every variable (possibly with an empty batch)']
    floors = {'quick': (100, 30), 'thorough': (2000, 500)}
    must_reach = ['abstract_dense_time_online_interpreter:AbstractDenseTimeOnlineInterpreter.update']
    quick_cases = 2000
    thorough_cases = 250000
    shrink_data = False

    def gen(self, rng, ctx):
        pastify = rng.random() < 0.3
        if pastify:
            c = lang.dense_cfg(rng, unbounded_future=False, timed_since_until=False, max_bound=4)
            c.max_depth = min(c.max_depth, 3)
        else:
            c = lang.dense_cfg(rng, future=False)
            c.max_depth = min(c.max_depth, 3)
        f = lang.gen_formula(rng, c)
        if pastify:
            for _ in range(50):
                if 0 < lang.horizon(f) <= 4 and not any(g[0] in ('until', 'unless') for g in lang.walk(f)):
                    break
                f = lang.gen_formula(rng, c)
            else:
                pastify = False
                f = lang.gen_formula(rng, lang.dense_cfg(rng, future=False))
        names = lang.variables(f) or [c.vars[0]]
        if rng.random() < 0.12 and not pastify:
            return self.gen_ia(rng, f, names)
        if len(names) > 1 and rng.random() < 0.35:
            case = self.gen_independent(rng, f, names, pastify)
            if rng.random() < 0.5:
                sig = sig_from_json(case['signals'])
                case['interleaved'] = [self.gen_interleaved(rng, sig, names) for _ in range(3)]
            return case
        n = rng.randint(2, 8)
        base = lang.gen_signal(rng, n=n, start=Fr(0) if rng.random() < 0.8 else None)
        epoch = rng.random() < 0.06
        if epoch:
            # time-stamps of epoch size (seconds since 1970, sampled every 0.25..2.5 s): consecutive stamps differ by
            # 1e-10 of their magnitude - exactly representable, and different
            base = lang.gen_signal(rng, n=n, start=Fr(rng.choice([1758800000, 1700000000, 4000000000])) + Fr(rng.randint(0, 3), 4))
        sig = dict((k, [(t, rng.choice(lang.SMALL)) for (t, _) in base]) for k in names)
        scheds = [[], list(range(1, n))]
        for _ in range(3):
            scheds.append(sorted(rng.sample(range(1, n), rng.randint(1, n - 1))) if n > 1 else [])
        if ctx is not None and ctx.tier == 'thorough' and n <= 6:
            scheds = list(all_splits(n))
        indep = None
        if len(names) > 1 and rng.random() < 0.5:
            indep = dict((k, sorted(rng.sample(range(1, n), rng.randint(1, n - 1)))) for k in names)
        case = {'formula': f, 'signals': sig_text(sig), 'schedules': scheds, 'indep': indep, 'pastify': pastify,
                'structs': rng.random() < 0.1, 'epoch': epoch}
        if pastify and lang.depth(f) >= 2 and rng.random() < 0.3:
            # the same formula written with named sub-specifications (a name may be referenced below further
            # look-ahead than its own assertion has): add_sub_spec or one multi-assertion text, then pastify()
            top, defs = lang.decompose(rng, f, rng.randint(1, 2))
            if defs:
                case['modular'] = {'top': lang.to_jsonable(top), 'defs': [[nm, lang.to_jsonable(g)] for nm, g in defs],
                                   'consts': [], 'style': rng.choice(['one-text', 'subspecs'])}
                case['structs'] = False
        if rng.random() < 0.35:
            case['interleaved'] = [self.gen_interleaved(rng, sig, names) for _ in range(3)]
        return case

    def gen_ia(self, rng, f, names):
        """An interface-aware semantics with a random io assignment; signals on the integer grid from 0 over a
        small symmetric alphabet (values on thresholds and at equal distances around them); all chunkings."""
        from rtverif.props.c06 import SEMS, PROP as C06P
        if rng.random() < 0.5:
            c6 = C06P.gen_eq_mirror(rng, kinds=('ct_on',))            # an overridden equality predicate, mirrored values
            sig = sig_from_json(c6['signals'])
            n = len(next(iter(sig.values())))
            scheds = [[], list(range(1, n))] + [sorted(rng.sample(range(1, n), rng.randint(1, n - 1))) for _ in range(4)]
            return {'formula': c6['formula'], 'signals': c6['signals'], 'schedules': scheds, 'indep': None,
                    'pastify': False, 'ia': [c6['sem'], c6['io']]}
        sem = rng.choice(SEMS[1:])
        io = dict((k, rng.choice(['input', 'output'])) for k in names)
        n = rng.randint(3, 7)
        sig = dict((k, [(Fr(i), rng.choice([-2.0, -1.0, 0.0, 1.0, 2.0])) for i in range(n)]) for k in names)
        scheds = [[], list(range(1, n))] + [sorted(rng.sample(range(1, n), rng.randint(1, n - 1))) for _ in range(3)]
        return {'formula': f, 'signals': sig_text(sig), 'schedules': scheds, 'indep': None, 'pastify': False,
                'ia': [sem, io]}

    def gen_interleaved(self, rng, sig, names):
        per = {}
        for k in names:
            nk = len(sig[k])
            cuts = sorted(rng.sample(range(1, nk), rng.randint(0, nk - 1))) if nk > 1 else []
            per[k] = list(zip([0] + cuts, cuts + [nk]))
        ups = []
        while any(per.values()):
            live = [k for k in names if per[k]]
            take = rng.sample(live, 1 if rng.random() < 0.6 else rng.randint(1, len(live)))
            ups.append(dict((k, list(per[k].pop(0))) for k in take))
            if rng.random() < 0.25:
                ups.append({})                                   # an idle poll: no source has anything new
        return {'interleaved': ups, 'absent': rng.choice(['omit', 'omit', 'empty', 'mixed'])}

    def gen_independent(self, rng, f, names, pastify):
        """Every variable has its own sampling instants (and possibly its own first stamp); every update()
        carries one non-empty batch per variable, cut independently per variable."""
        sig = {}
        t0 = Fr(0)
        for k in names:
            st = t0 if rng.random() < 0.6 else t0 + Fr(rng.randint(1, 8), 4)
            sig[k] = lang.gen_signal(rng, n=rng.randint(2, 7), start=st)
        m_max = min(len(s) for s in sig.values())
        indep = []
        for m in sorted(set([1, m_max, rng.randint(1, m_max), rng.randint(1, m_max)])):
            sched = {}
            for k in names:
                nk = len(sig[k])
                sched[k] = sorted(rng.sample(range(1, nk), m - 1)) if m > 1 else []
            indep.append(sched)
        return {'formula': f, 'signals': sig_text(sig), 'schedules': [], 'indep_list': indep, 'pastify': pastify}

    def judge(self, case):
        v = Verdict()
        f = case['formula']
        sig = sig_from_json(case['signals'])
        names = sorted(sig)
        text = lang.to_text(f)
        pastify = case.get('pastify', False)
        h = Fr(lang.horizon(f)) if pastify else Fr(0)
        start = max(s[0][0] for s in sig.values())
        rel = rel_for(f)
        same = lambda a, b: refd.same(a, b, rel)
        ia, sd_extra = case.get('ia'), None
        if case.get('epoch'):
            v.info['class:epoch-size-stamps'] = 1
        try:
            if ia:
                # interface-aware semantics on both sides (online and offline); the reference overrides the
                # insensitive predicates the way C06 specifies
                from rtverif.props.c06 import hook_dense
                exp = ref.evaluate(f, sig, pred_hook=hook_dense(ia[0], ia[1]))
                sd_extra = {'semantics': ia[0], 'io': ia[1]}
                v.info['class:interface-aware'] = 1
            else:
                exp = ref.evaluate(f, sig)
        except refd.Undefined:
            v.skip = 'reference undefined (domain error)'
            return v
        try:
            off = drive.ct_offline(text, names, sig, sd=sd_extra)
        except Exception as e:
            v.skip = 'offline comparator raised %s' % type(e).__name__
            return v
        # the comparator named by the property is the real offline monitor; it must itself agree with
        # the reference here, otherwise the case is C04's business
        end = min(s[-1][0] for s in sig.values())
        if end < start:
            v.skip = 'empty common domain'
            return v
        if not off or ref.compare(exp, off, start, end, same) is not None:
            v.skip = 'offline comparator disagrees with the reference (reported by C04)'
            return v
        v.nontrivial = lang.has_stateful(f) and any(len(c) >= 1 for c in case['schedules'])
        v.info['class:' + ('pastified' if pastify else 'past')] = 1
        scheds = [('aligned', dict((k, c) for k in names)) for c in case['schedules']]
        if case.get('indep'):
            scheds.append(('per-variable', case['indep']))
        for sc in case.get('indep_list') or []:
            scheds.append(('per-variable', sc))
        for sc in case.get('interleaved') or []:
            scheds.append(('interleaved', sc))
            v.info['class:interleaved-sources'] = 1
        if case.get('indep_list'):
            v.info['class:independent-stamps'] = 1
            v.nontrivial = lang.has_stateful(f) and any(any(c for c in sc.values()) for sc in case['indep_list'])
        covered = []
        for label, sched in scheds:
            desc = '%s cuts=%s' % (label, sched[names[0]] if label == 'aligned' else sched)
            self.__dict__.setdefault('_scheds', set()).add((len(sig[names[0]]), repr(sorted(sched.items(), key=repr))))
            v.info['schedules'] = v.info.get('schedules', 0) + 1
            try:
                sdx = sd_extra
                if label == 'aligned' and case.get('structs') and not ia:
                    sdx = {'structify': True}           # inputs as fields of one object-typed variable
                    v.info['class:struct-inputs'] = 1
                if case.get('modular'):
                    from rtverif.props.c09 import modular_sd
                    sdx = dict(sdx or {}, **dict((k2, v2) for k2, v2 in modular_sd(case['modular'], names).items()))
                    v.info['class:modular-pastified'] = 1
                outs = run_schedule(text, names, sig, sched, pastify, sd_extra=sdx)
            except Exception as e:
                if any(x != x for x in exp.vs):
                    v.skip = 'raised on a NaN-tainted formula'
                    return v
                v.bad('raises:' + type(e).__name__, '%s signals=%s schedule %s: update raised %s: %s' % (
                    text, case['signals'], desc, type(e).__name__, e),
                    None if ia else findings.c05_attribution(f, sig, sched, 'raises', str(e), pastify))
                continue
            cat = [s for o in outs for s in o]
            if any((not isinstance(s, (list, tuple))) or len(s) != 2 for s in cat):
                v.bad('shape', '%s: outputs %r' % (text, outs))
                continue
            ts = [s[0] for s in cat]
            if any(b < a for a, b in zip(ts, ts[1:])):
                v.bad('order', '%s signals=%s schedule %s: concatenated stamps decrease: %s' % (
                    text, case['signals'], desc, fmt(ts, 24)), None if ia else findings.c05_attribution(f, sig, sched, 'order', cat, pastify))
                continue
            if not cat:
                continue
            fin = [s for s in cat if s[0] == s[0] and abs(s[0]) != refd.INF]
            if not fin:
                continue
            lo, hi = ref.Q(fin[0][0]), ref.Q(fin[-1][0])
            if len(fin) < len(cat):
                hi = max(hi, end + h)          # a sample stamped inf claims the value for ever
            lo = max(lo, start + h)
            if hi < lo:
                continue
            v.info['covered_quarter_units'] = v.info.get('covered_quarter_units', 0) + int((hi - lo) * 4)
            shifted = [[s[0] - float(h), s[1]] for s in cat]
            bad = ref.compare(exp, shifted, lo - h, hi - h, same)
            if bad is not None:
                t, o, e = bad
                v.bad('differs-from-offline', '%s%s signals=%s schedule %s: at t=%s online gives %r, offline %r; '
                      'outputs=%s' % (text, ' (pastified, h=%s)' % h if pastify else '', case['signals'], desc,
                                      float(t + h), o, e, outs), None if ia else findings.c05_attribution(f, sig, sched, 'value', cat, pastify))
                continue
            covered.append((desc, lo, hi, cat))
        # pairwise cross-check needs no reference at all (only informative here because each schedule was
        # already compared with offline on everything it covers)
        return v


    BINOPS = ('add', 'sub', 'mul', 'div', 'pow', 'log', 'and', 'or', 'implies', 'iff', 'xor', 'since', 'since-timed')

    def gen_binop(self, rng, o):
        """One binary operation whose two operands are carried by different variables, each variable with its own
        sampling instants, first stamp and batch boundaries (per-variable and interleaved schedules): the class in
        which the two operand buffers of a dense-time online operation advance independently."""
        N, V, C = lang.N, lang.V, lang.C
        x, y = V('x'), V('y')
        if o in lang.BIN_ARITH:
            left = rng.choice([x, N('add', N('abs', x), C(1.0))]) if o in ('add', 'sub', 'mul') else N('add', N('abs', x), C(1.0))
            right = {'add': y, 'sub': y, 'mul': y, 'div': N('add', N('abs', y), C(1.0)), 'pow': N('div', y, C(4.0)),
                     'log': N('add', N('abs', y), C(2.0))}[o]
            f = N(rng.choice(['geq', 'leq', 'gt']), N(o, left, right), C(rng.choice([1.0, 2.0, 0.5])))
        else:
            p = N(rng.choice(['geq', 'leq']), x, C(rng.choice([0.0, 1.0, -1.0])))
            q = N(rng.choice(['geq', 'leq']), y, C(rng.choice([0.0, 1.0, -1.0])))
            if o == 'since-timed':
                a = rng.choice([0, 1, 2])
                f = N('since', p, q, ivl=(Fr(a, 4), Fr(a + rng.choice([0, 2, 4]), 4)))
            else:
                f = N(o, p, q)
        r = rng.random()
        if r < 0.3:
            f = N('once', f, ivl=(Fr(0), Fr(rng.choice([1, 2, 4]), 4)))
        elif r < 0.45:
            f = N('historically', f)
        names = ['x', 'y']
        case = self.gen_independent(rng, f, names, False)
        sig = sig_from_json(case['signals'])
        if o.startswith('since') and rng.random() < 0.6:
            # the LEFT operand becomes defined strictly later than the right one (and the right one is large before
            # the left one exists)
            late = Fr(rng.randint(1, 8), 4)
            first = sig['y'][0][0]
            sig['x'] = [(t + (first - sig['x'][0][0]) + late, val) for t, val in sig['x']]
            # (a coherent picture: the left predicate holds; the right one holds with a margin before the left operand
            # exists and fails afterwards - the memory of the earlier right values must not be combined with the left)
            lp, rp = (f[2], f[3]) if f[0] == 'since' else (f[2][2], f[2][3])
            lc, rc = lp[3][2], rp[3][2]
            sgn_l, sgn_r = (1 if lp[0] == 'geq' else -1), (1 if rp[0] == 'geq' else -1)
            sig['x'] = [(t, lc + sgn_l * rng.choice([0.5, 1.0, 2.0])) for t, _ in sig['x']]
            sig['y'] = [(t, rc + sgn_r * (rng.choice([3.0, 4.0]) if t < sig['x'][0][0] else -rng.choice([1.0, 2.0, 3.0])))
                        for t, _ in sig['y']]
            case['signals'] = sig_text(sig)
        case['interleaved'] = [self.gen_interleaved(rng, sig, names) for _ in range(3)]
        case['binop'] = o
        return case

    def gen_long(self, rng):
        """Signals of 501..1100 samples fed in one update (and cut at/around sample 500 and at random places): what
        a batch-size dependent path of the online front end would meet."""
        N, V, C = lang.N, lang.V, lang.C
        px, py = N('geq', V('x'), C(rng.choice([0.0, 1.0]))), N('geq', V('y'), C(1.0))
        pastify = False
        r = rng.random()
        if r < 0.25:
            f = px
        elif r < 0.45:
            f = N('and', px, N('once', py, ivl=(Fr(0), Fr(3))))
        elif r < 0.6:
            f = N('since', px, py, ivl=(Fr(1), Fr(2)))
        elif r < 0.75:
            f, pastify = N('and', N('eventually', px, ivl=(Fr(0), Fr(3))), py), True
        else:
            c = lang.dense_cfg(rng, future=False, timed_since_until=False, max_bound=4)
            c.max_depth, c.vars = 2, ['x', 'y']
            f = lang.gen_formula(rng, c)
        names = lang.variables(f) or ['x']
        n = rng.choice([501, 502, 520, 640, 760])
        t, stamps = Fr(0), []
        for _ in range(n):
            stamps.append(t)
            t += Fr(rng.choice([1, 1, 2, 4]), 4)
        sig = dict((k, [(s_, rng.choice([-1.0, 0.0, 2.0, 3.0, 0.5])) for s_ in stamps]) for k in names)
        scheds = [[], rng.choice([[500], [499], [250]]), sorted(rng.sample(range(1, n), 3))]
        return {'formula': f, 'signals': sig_text(sig), 'schedules': scheds, 'indep': None, 'pastify': pastify,
                'long': True}

    def shrinkable(self, case):
        return not case.get('long') and not case.get('modular')

    def run(self, ctx):
        self.long_cases(ctx)
        Prop.run(self, ctx)

    def long_cases(self, ctx):
        for _ in range(2 if ctx.tier == 'quick' else max(1, 48 // ctx.nshards)):
            if ctx.out_of_time():
                break
            self.check(ctx, self.gen_long(ctx.rng))
            ctx.count('class:long-batches')

    def extra(self, ctx):
        per = 4 if ctx.tier == 'quick' else max(2, 400 // ctx.nshards)
        for o in self.BINOPS:
            for _ in range(per * 4 if o.startswith('since') else per):      # (since: the late-left-operand picture)
                if ctx.out_of_time():
                    break
                self.check(ctx, self.gen_binop(ctx.rng, o))
                ctx.count('class:binary-operation-over-independent-sources')
        ctx.stats['distinct_schedules_observed'] = len(self.__dict__.get('_scheds', ()))


PROP = C05()
