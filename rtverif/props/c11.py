"""C11 — evaluation is pure: caller data untouched, repeatable, isolated, deterministic."""
import copy
import hashlib
import json
import os
import random
import subprocess
import sys
from fractions import Fraction as Fr

from rtverif import lang, drive, monitors
from rtverif import ref_discrete as refd
from rtverif.props.base import Prop, Verdict, fmt
from rtverif.props.c02 import past_cfg

KINDS = ('dt_off', 'dt_on', 'ct_off', 'ct_on')


def _jsonable(x):
    from rtverif import runner
    return runner.jsonable(x)


def gen_obj(rng):
    """One specification + its data + its call script."""
    kind = rng.choice(KINDS)
    if kind == 'dt_off':
        c = lang.GenCfg(vars=list(lang.VAR_POOL[:rng.choice([1, 2, 3])]), max_depth=rng.choice([1, 2, 3]),
                        unless=True, max_bound=rng.choice([3, 8, 15]), untyped=rng.choice([0.0, 0.3, 0.5]))
    elif kind == 'dt_on':
        c = past_cfg(rng)
        c.max_depth = min(c.max_depth, 3)
    elif kind == 'ct_off':
        c = lang.dense_cfg(rng)
        c.untyped = rng.choice([0.0, 0.3])
    else:
        c = lang.dense_cfg(rng, future=False)
        c.untyped = rng.choice([0.0, 0.3, 0.5])       # (bare variables as operands: the operand list IS the caller's list)
    if rng.random() < 0.25:
        c.dup = 0.3
    f = lang.gen_formula(rng, c)
    n = rng.choice([1, 2, 3, 4, 6, 10])
    if kind in ('dt_off', 'ct_off') and rng.random() < 0.35:
        # aliasing class: a bare variable directly under a bounded future operator whose bound exceeds the
        # trace, next to other uses of the same variable
        x = lang.V(rng.choice(c.vars))
        b = n + rng.randint(0, 4)
        if kind == 'ct_off':
            b = lang.Fraction(b)
        inner = lang.N(rng.choice(['always', 'eventually']), x, ivl=(rng.choice([0, 0, 1]), b))
        f = lang.N(rng.choice(['and', 'or', 'add', 'until', 'since']), *rng.sample([inner, rng.choice([x, f])], 2))
    names = lang.variables(f) or [c.vars[0]]
    data = lang.gen_trace(rng, names, n)
    obj = {'kind': kind, 'formula': lang.to_jsonable(f), 'data': data, 'reps': rng.choice([1, 2, 2, 3] if rng.random() < 0.97 else [12, 20])}
    if rng.random() < 0.3 and any(g[1] is not None for g in lang.walk(f)):
        obj['units'] = rng.choice(['s', 'ms', 'us'])
    if kind.startswith('dt') and rng.random() < 0.15 and any(g[1] is not None for g in lang.walk(f)) and not heavy_formula(f):
        # a sampling period that is not one default unit (bounds written in s, so they stay multiples of it): the
        # same object evaluated / updated repeatedly must not drift
        obj['units'] = 's'
        obj['period'] = rng.choice([[500, 'ms'], [250, 'ms'], [100, 'ms']])
        obj['reps'] = max(obj['reps'], 2)
    if rng.random() < 0.2:
        # named assertions that the output never refers to, next to the output assertion (1..3 of them: whatever a
        # specification keeps in sets or dictionaries keyed by their names is iterated in hash order)
        obj['unref'] = rng.randint(1, 3)
    if kind == 'dt_off' and rng.random() < 0.25:
        obj['tuples'] = True
    if kind == 'ct_on' and rng.random() < 0.6:
        obj['repeat'] = True
    if kind == 'dt_off' and rng.random() < 0.4:
        obj['explain'] = True
    if kind in ('dt_off', 'ct_off') and len(names) >= 2 and rng.random() < 0.4:
        obj['poison'] = rng.choice(names)
        obj['reps'] = max(obj['reps'], 2)
    return obj


def heavy_formula(f):
    return any(g[0] in ('since', 'until', 'unless') and g[1] is not None and g[1][1] > 0 for g in lang.walk(f))


def obj_sd(obj):
    """Specification dict of one object; 'units' objects spell every bound with an explicit suffix and set a
    default unit, so that objects with the same interval text but different default units meet in one process
    (only solo-vs-interleaved equality is judged here, not what the values are)."""
    f = lang.from_jsonable(obj['formula'])
    sd = {'vars': sorted(obj['data'])}
    u = obj.get('units')
    if obj.get('unref') and not u:
        v0 = sd['vars'][0]
        names = ['watchdog', 'aux_ok', 'zz_limit'][:obj['unref']]
        sd['subspecs'] = ['%s = (%s %s %d);' % (nm, v0, ('>=', '<=', '>')[i], i) for i, nm in enumerate(names)]
        sd['text'] = 'out = %s;' % lang.to_text(f)
        return sd
    if not u:
        sd['text'] = lang.to_text(f)
        return sd
    dense = obj['kind'].startswith('ct')
    if dense:
        pr = lambda i: '[%sms,%sms]' % (lang.num(i[0] * 1000), lang.num(i[1] * 1000))
    else:
        pr = lambda i: '[%ss,%ss]' % (lang.num(i[0]), lang.num(i[1]))
    sd['text'] = lang.to_text(f, ivl_printer=pr)
    sd['unit'] = u
    if obj.get('period') and not dense:
        sd['period'] = (obj['period'][0], obj['period'][1], 0.1)
    return sd


def heavy(obj):
    """Bounded since/until/unless: rtamt's evaluation is quadratic in the window, keep those on the 1 s period."""
    return any(g[0] in ('since', 'until', 'unless') and g[1] is not None and g[1][1] > 0
               for g in lang.walk(lang.from_jsonable(obj['formula'])))


def confusable_periods(rng, a, b):
    """Two objects with the same interval text whose sampling periods have the same number and another unit."""
    if a.get('units') and b.get('units') and a['kind'].startswith('dt') and b['kind'].startswith('dt') \
            and not heavy(a) and not heavy(b):
        pa, pb = rng.sample(['s', 'ms'], 2)            # (us: 15 s would be a 15e6-sample window)
        a['period'], b['period'] = [1, pa], [1, pb]
        return True
    return False


def calls_of(obj):
    """List of (method, args-builder) for one object; args are rebuilt per run from plain data."""
    kind, data = obj['kind'], obj['data']
    names = sorted(data)
    n = len(data[names[0]])
    if kind == 'dt_off':
        return [('evaluate', ('dt', n))] * obj.get('reps', 1)
    if kind == 'ct_off':
        return [('evaluate', ('ct', 0, n))] * obj.get('reps', 1)
    if kind == 'dt_on':
        return [('update', ('dtu', i)) for i in range(n)]
    half = max(1, n // 2)
    out = [('update', ('ct', 0, half))]
    if half < n:
        # (windows that include both end points: the second batch may re-send the frontier sample of the first)
        out.append(('update', ('ct', half - 1 if obj.get('repeat') else half, n)))
    return out


def build_args(obj, spec, tw=None, label='arg'):
    """Concrete argument tuple for one call; with a Tripwire the containers are guarded."""
    data = obj['data']
    names = sorted(data)
    mk = (lambda items, lab: monitors.GuardedList(items, tw, lab)) if tw is not None else (lambda items, lab: list(items))
    if spec[0] == 'dt':
        d = {'time': mk(range(spec[1]), label + ".time")}
        for k in names:
            d[k] = mk(data[k][:spec[1]], label + '.' + k)
        if tw is not None:
            d = monitors.GuardedDict(d, tw, label)
        return (d,)
    if spec[0] == 'dtu':
        i = spec[1]
        return (i, mk([mk([k, data[k][i]], label + '.pair') for k in names], label + '.inputs'))
    a, b = spec[1], spec[2]
    return tuple(mk([k, mk([mk([float(i), data[k][i]], label + '.sample') for i in range(a, b)],
                           label + '.' + k)], label + '.entry') for k in names)


def api_of(obj):
    if obj['kind'] == 'dt_off' and obj.get('explain'):
        return 'dt_off'                # the offline-only class carries the explainer
    return {'dt_off': 'dt', 'dt_on': 'dt', 'ct_off': 'ct', 'ct_on': 'ct'}[obj['kind']]


def do_explain(m):
    try:
        m.explain()
        return None
    except Exception as e:
        return 'explain raised %s' % type(e).__name__


def read_explanations(m):
    try:
        ex = m.spec.explainer.explanations
        return sorted((str(getattr(k, 'name', k)), repr(v)) for k, v in ex.items())
    except Exception as e:
        return 'reading explanations raised %s' % type(e).__name__


def run_solo(obj):
    try:
        m = drive.Mon(api_of(obj), obj_sd(obj))
    except Exception as e:
        return ['parse raised %s' % type(e).__name__]
    out = []
    for meth, spec in calls_of(obj):
        try:
            out.append(monitors.plain(getattr(m, meth)(*build_args(obj, spec))))
        except Exception as e:
            out.append('raised %s' % type(e).__name__)
    if obj.get('explain'):
        out.append(do_explain(m))
        out.append(read_explanations(m))
    return out


def workload_digest(seed, count):
    rng = random.Random(seed)
    h = hashlib.sha1()
    for _ in range(count):
        obj = gen_obj(rng)
        h.update(json.dumps(run_solo(obj), sort_keys=True, default=repr).encode())
    return h.hexdigest()


class C11(Prop):
    id = 'C11'
    reparse_histories = False      # explanations (part of the compared results) also cover earlier parse() calls
    struct_inputs = False          # the arguments of the workload are compared before/after the call
    typed_inputs = False
    rule_added = "6% of the isolation cases: 2-3 online objects whose bounded past operators have the same wide bounds (256..400 samples). Some pairs of objects share the interval text and have sampling periods with the same number and another unit; 40% of multi-variable offline purity cases insert a poisoned call (one variable without numbers) between repetitions. 25% of discrete offline purity cases with tuple columns; identity of the caller's dictionary entries is compared. Cross-process groups by kind (random / confusable periods / dense units / discrete units). 40% of the dense online objects re-send the frontier sample at the start of their second batch."
    rule = ('(1) purity: one spec of each monitor kind is run on generated data passed as tripwire lists/dicts; the '
            'arguments are deep-compared before/after every call (short traces under long bounds, bare variables '
            'under temporal operators); (2) repeatability: offline evaluate() twice on the same object and data; '
            '(3) isolation: 2..4 spec objects (same or different texts, some sharing the very same data objects) run '
            'under a random interleaving of their calls and compared call-by-call with each object run alone; '
            '(4) determinism: a fixed 150-object workload is executed in subprocesses under PYTHONHASHSEED in '
            '{0,1,2,12345,random} and the result digests compared. distinct = hash(case); non-trivial = stateful '
            'formula and >=2 calls.')
    assumptions = ['value semantics of list/dict subclasses equal those of the builtins (tripwires only add logging)']
    floors = {'quick': (200, 60), 'thorough': (4000, 1000)}
    must_reach = []
    quick_cases = 1200
    thorough_cases = 500000

    def shrinkable(self, case):
        return False

    def gen(self, rng, ctx):
        if rng.random() < 0.5:
            return {'type': 'purity', 'obj': gen_obj(rng)}
        if rng.random() < 0.06:
            return self.gen_wide(rng)
        k = rng.randint(2, 4)
        objs = [gen_obj(rng) for _ in range(k)]
        if rng.random() < 0.4:
            objs[1] = dict(objs[0])                     # same text, same data, separate object
            if objs[1].get('units') and rng.random() < 0.7:
                objs[1]['units'] = rng.choice([u for u in ('s', 'ms', 'us') if u != objs[0]['units']])
            elif objs[1].get('units'):
                confusable_periods(rng, objs[0], objs[1])
        order = []
        for i, o in enumerate(objs):
            order += [i] * len(calls_of(o))
        rng.shuffle(order)
        return {'type': 'isolation', 'objs': objs, 'order': order, 'share': rng.random() < 0.5}

    def gen_wide(self, rng):
        """Two or three online objects whose bounded past operators have the same, wide bounds (256..400 samples):
        whatever a monitor keeps per window (buffers of hundreds of entries) belongs to that monitor alone."""
        a = rng.choice([0, 0, 2, 255])
        b = rng.randint(256, 400)
        objs = []
        for _ in range(rng.randint(2, 3)):
            p = lang.N(rng.choice(['geq', 'leq']), lang.V('x'), lang.C(rng.choice([0.0, 1.0, 2.0])))
            f = lang.N(rng.choice(['once', 'historically']), p, ivl=(a, b))
            if rng.random() < 0.4:
                f = lang.N(rng.choice(['and', 'or']), f, lang.N('geq', lang.V('y'), lang.C(0.0)))
            names = lang.variables(f)
            objs.append({'kind': 'dt_on', 'formula': lang.to_jsonable(f), 'data': lang.gen_trace(rng, names, rng.randint(4, 10)),
                         'reps': 1})
        order = []
        for i, o in enumerate(objs):
            order += [i] * len(calls_of(o))
        rng.shuffle(order)
        return {'type': 'isolation', 'objs': objs, 'order': order, 'share': False, 'wide': True}

    def judge(self, case):
        return self.judge_purity(case) if case['type'] == 'purity' else self.judge_isolation(case)

    def judge_purity(self, case):
        v = Verdict()
        obj = case['obj']
        f = lang.from_jsonable(obj['formula'])
        text = lang.to_text(f)
        v.nontrivial = lang.has_stateful(f) and len(calls_of(obj)) >= 2
        v.info['purity:' + obj['kind']] = 1
        api = {'dt_off': 'dt', 'dt_on': 'dt', 'ct_off': 'ct', 'ct_on': 'ct'}[obj['kind']]
        try:
            m = drive.Mon(api, obj_sd(obj))
        except Exception as e:
            v.skip = 'parse raised'
            return v
        results = []
        for meth, spec in calls_of(obj):
            tw = monitors.Tripwire()
            args = build_args(obj, spec, tw)
            if obj.get('tuples') and spec[0] == 'dt':
                # immutable columns (what zip(*rows) or a tuple-based loader produces): they cannot be modified, but
                # the entries of the caller's dictionary can be re-bound
                args = (dict((k, tuple(col)) for k, col in args[0].items()),)
                v.info['purity:tuple-columns'] = 1
            before = monitors.plain(args)
            entries = [(a, k, a[k]) for a in args if isinstance(a, dict) for k in list(a)]
            try:
                r = getattr(m, meth)(*args)
            except Exception as e:
                v.skip = 'call raised %s (C17/C01 territory)' % type(e).__name__
                return v
            after = monitors.plain(args)
            for a, k, orig in entries:
                if k not in a or a[k] is not orig:
                    v.bad('argument-rebound', '%s [%s]: %s replaced the entry %r of the dictionary it was given: %s -> %s'
                          % (text, obj['kind'], meth, k, type(orig).__name__, type(a.get(k)).__name__))
                    return v
            if not monitors.same_plain(before, after):
                v.bad('argument-mutated', '%s [%s]: %s changed its argument: before=%s after=%s; tripwire: %s' % (
                    text, obj['kind'], meth, repr(before)[:300], repr(after)[:300], tw.events[:3]))
                return v
            if tw.events:
                v.info['tripwire-hits-without-net-change'] = 1
            results.append(monitors.plain(r))
            if obj.get('poison') and len(results) == 1 and obj['kind'] in ('dt_off', 'ct_off'):
                # a call that fails part-way (one variable carries no numbers) on other data: whatever it
                # leaves behind must not show in the following evaluations of the good data
                pdata = dict((k, [x + 1.0 for x in reversed(vals)]) for k, vals in obj['data'].items())
                pdata[obj['poison']] = [None] * len(pdata[obj['poison']])
                try:
                    getattr(m, meth)(*build_args(dict(obj, data=pdata), spec))
                    v.info['poisoned-call-returned'] = 1
                except Exception:
                    v.info['poisoned-call-raised'] = 1
            # the returned object must not alias caller data in a way a later call could disturb:
            # checked behaviourally by the repeat below
            last_args, last_before = args, before
        if results and len(text) % 3 != 0:
            # ... nor may the object modify them later: what it does after the calls - parse() again, reset() of an
            # online monitor - leaves the data it was given alone (it may have kept references to them)
            try:
                if obj['kind'] in ('dt_on', 'ct_on') and len(text) % 2:
                    m.reset()
                    what_later = 'reset()'
                else:
                    m.parse()
                    what_later = 'a second parse()'
                v.info['purity:later-' + what_later.split('(')[0].split()[-1]] = 1
            except Exception:
                what_later = None
            if what_later and not monitors.same_plain(last_before, monitors.plain(last_args)):
                v.bad('argument-mutated-later', '%s [%s]: %s after the calls changed the data the last call was given: '
                      'before=%s after=%s' % (text, obj['kind'], what_later, repr(last_before)[:300],
                                              repr(monitors.plain(last_args))[:300]))
                return v
        if obj['kind'] in ('dt_off', 'ct_off') and len(results) >= 2:
            for i, r in enumerate(results[1:], 1):
                if not monitors.same_plain(results[0], r):
                    v.bad('not-repeatable', '%s [%s]: evaluate() #%d on the same object and data returned %s, the '
                          'first call returned %s' % (text, obj['kind'], i + 1, repr(r)[:300], repr(results[0])[:300]))
                    break
        return v

    def judge_isolation(self, case):
        v = Verdict()
        objs = case['objs']
        v.nontrivial = len(case['order']) >= 3
        v.info['isolation:%d-objects' % len(objs)] = 1
        if case.get('wide'):
            v.info['isolation:wide-windows'] = 1
        self.__dict__.setdefault('_orders', set()).add((tuple(case['order']), tuple(o['kind'] for o in objs)))
        solo = [run_solo(o) for o in objs]
        try:
            ms = [drive.Mon(api_of(o), obj_sd(o)) for o in objs]
        except Exception:
            v.skip = 'parse raised'
            return v
        scripts = [calls_of(o) for o in objs]
        pos = [0] * len(objs)
        got = [[] for _ in objs]
        shared = {}
        for i in case['order']:
            meth, spec = scripts[i][pos[i]]
            pos[i] += 1
            key = (json.dumps(objs[i]['data'], sort_keys=True), spec)
            if case.get('share') and key in shared:
                args = shared[key]                      # the very same argument objects as another spec got
            else:
                args = build_args(objs[i], spec)
                shared[key] = args
            try:
                got[i].append(monitors.plain(getattr(ms[i], meth)(*args)))
            except Exception as e:
                got[i].append('raised %s' % type(e).__name__)
        # explanations: all objects are explained first, the explanations are read afterwards (the report is
        # built at the end)
        for i, o in enumerate(objs):
            if o.get('explain'):
                got[i].append(do_explain(ms[i]))
        for i, o in enumerate(objs):
            if o.get('explain'):
                got[i].append(read_explanations(ms[i]))
                v.info['isolation:explanations-read-at-the-end'] = 1
        for i, o in enumerate(objs):
            if not monitors.same_plain(solo[i], got[i]):
                v.bad('interference', 'object %d (%s, %s) returns %s when its calls are interleaved with %d other '
                      'object(s) (order %s, shared args=%s) but %s when run alone' % (
                          i, o['kind'], lang.to_text(lang.from_jsonable(o['formula'])), repr(got[i])[:300],
                          len(objs) - 1, case['order'], case.get('share'), repr(solo[i])[:300]))
                break
        return v

    def cross_process(self, ctx):
        """Isolation against a fresh process: every object of a few groups is run ALONE in its own interpreter
        process; the same objects are then run, interleaved, in this long-lived process (which has executed all
        the cases above, so any process-wide cache or class attribute is as polluted as it gets)."""
        rng = ctx.rng
        groups = 16 if ctx.tier == 'quick' else 64
        here = os.path.dirname(os.path.dirname(os.path.dirname(os.path.abspath(__file__))))
        code = ('import sys,os,json; sys.stdout=open(os.devnull,"w"); from rtverif.props import c11; '
                'sys.__stdout__.write(json.dumps(c11.run_solo(json.loads(sys.stdin.read())), default=repr))')
        env = dict(os.environ, PYTHONPATH=drive.REPO + os.pathsep + here)
        has_ivl = lambda o: any(gg[1] is not None for gg in lang.walk(lang.from_jsonable(o['formula'])))
        for g in range(groups):
            # group kinds: 0 random objects; 1 discrete objects, same text, confusable sampling periods;
            # 2 dense objects, same text, different default units; 3 discrete objects, same text, different units
            mode = g % 4
            k = rng.randint(2, 3)
            base = gen_obj(rng)
            if mode:
                want = 'ct' if mode == 2 else 'dt'
                for _ in range(300):
                    if base['kind'].startswith(want) and has_ivl(base) and not (mode == 1 and heavy(base)) \
                            and len(next(iter(base['data'].values()))) >= 4:
                        break
                    base = gen_obj(rng)
            objs = [base]
            for j in range(1, k):
                o = dict(base) if (rng.random() < 0.6 or (mode and j == 1)) else gen_obj(rng)
                objs.append(o)
            units = ['s', 'ms', 'us']
            rng.shuffle(units)
            if mode in (2, 3):
                # the data are on a grid of whole default units: only with 's' are the windows short enough to matter
                units = ['s'] + [u for u in units if u != 's']
            for j, o in enumerate(objs):
                if has_ivl(o):
                    o['units'] = units[j % 3]
            if mode == 1 and objs[0].get('units') and objs[1]['formula'] == objs[0]['formula']:
                objs[1]['units'] = objs[0]['units']
                if confusable_periods(rng, objs[0], objs[1]):
                    ctx.count('cross-process-confusable-periods', 1)
            ctx.count('cross-process-group-kind:%d' % mode, 1)
            procs = [subprocess.Popen([sys.executable, '-B', '-c', code], env=env, stdin=subprocess.PIPE,
                                      stdout=subprocess.PIPE, stderr=subprocess.PIPE) for _ in objs]
            refs = []
            for o, p in zip(objs, procs):
                try:
                    out, err = p.communicate(json.dumps(_jsonable(o)).encode(), timeout=120)
                    refs.append(json.loads(out.decode()) if p.returncode == 0 else None)
                    if p.returncode != 0:
                        why = err.decode('utf8', 'replace')[-300:]
                except Exception as e:
                    p.kill()
                    refs.append(None)
                    why = repr(e)
            if any(r is None for r in refs):
                ctx.notes.append('cross-process reference failed for a group (inconclusive): %s' % why)
                continue
            got = [json.loads(json.dumps(run_solo(o), default=repr)) for o in objs]
            case = {'type': 'cross-process', 'objs': objs}
            ctx.case(case, True)
            ctx.count('cross-process-objects', len(objs))
            for o, r, gt in zip(objs, refs, got):
                if json.dumps(r, sort_keys=True) != json.dumps(gt, sort_keys=True):
                    ctx.violation('process-state-leak', 'object (%s, %s, unit=%s) returns %s in a process that has run '
                                  'other specifications but %s when run alone in a fresh process' % (
                                      o['kind'], obj_sd(o)['text'], o.get('units'), repr(gt)[:300], repr(r)[:300]), case)
                    break

    def extra(self, ctx):
        ctx.stats['distinct_interleavings_observed'] = len(self.__dict__.get('_orders', ()))
        if ctx.shard != 0:
            return
        self.cross_process(ctx)
        seeds = ['0', '1', '2', '12345', 'random'] + (['7', '99', 'random', 'random'] if ctx.tier == 'thorough' else [])
        count = 150 if ctx.tier == 'quick' else 600
        here = os.path.dirname(os.path.dirname(os.path.dirname(os.path.abspath(__file__))))
        code = ('import sys,os; sys.stdout=open(os.devnull,"w"); from rtverif.props import c11; '
                'sys.__stdout__.write(c11.workload_digest(%d, %d))' % (ctx.seed + 4242, count))
        digs = {}
        for hs in seeds:
            env = dict(os.environ, PYTHONHASHSEED=hs, PYTHONPATH=drive.REPO + os.pathsep + here)
            try:
                p = subprocess.run([sys.executable, '-B', '-c', code], env=env, capture_output=True, timeout=600)
            except subprocess.TimeoutExpired:
                ctx.notes.append('hash-seed run %s timed out (inconclusive)' % hs)
                continue
            d = p.stdout.decode().strip()
            if p.returncode != 0 or len(d) != 40:
                ctx.notes.append('hash-seed run %s failed: %s' % (hs, p.stderr.decode()[-300:]))
                continue
            digs.setdefault(d, []).append(hs)
            ctx.count('hashseed-runs')
        ctx.stats['hashseed_digests'] = dict((k, v) for k, v in digs.items())
        case = {'type': 'hashseed', 'seeds': seeds, 'objects': count}
        ctx.case(case, True)
        if len(digs) > 1:
            ctx.violation('hash-seed-dependence', 'results of a fixed %d-object workload differ between '
                          'PYTHONHASHSEED values: %s' % (count, digs), case)


PROP = C11()
