"""C18 — temporal dualities and expansion laws hold in every monitor."""
from rtverif import lang, drive
from rtverif import ref_discrete as ref
from rtverif.lang import N
from rtverif.props.base import Prop, Verdict, fmt
from rtverif.props.c01 import rel_for

LAWS = ('dual-ev-alw', 'dual-once-hist', 'dual-once-hist-unb', 'implies', 'ev-ev', 'once-once',
        'since-exp', 'until-exp')
PAST_LAWS = ('dual-once-hist', 'dual-once-hist-unb', 'implies', 'once-once', 'since-exp')
FUT_LAWS = ('dual-ev-alw', 'ev-ev', 'implies', 'dual-ev-alw')
DENSE_LAWS = ('dual-ev-alw', 'dual-once-hist', 'dual-once-hist-unb', 'implies', 'ev-ev', 'once-once')


def sides(law, p, q, i1, i2):
    if law == 'dual-ev-alw':
        return N('not', N('eventually', p, ivl=i1)), N('always', N('not', p), ivl=i1)
    if law == 'dual-once-hist':
        return N('not', N('once', p, ivl=i1)), N('historically', N('not', p), ivl=i1)
    if law == 'dual-once-hist-unb':
        return N('not', N('once', p)), N('historically', N('not', p))
    if law == 'implies':
        return N('implies', p, q), N('or', N('not', p), q)
    if law == 'ev-ev':
        return (N('eventually', N('eventually', p, ivl=i2), ivl=i1),
                N('eventually', p, ivl=(i1[0] + i2[0], i1[1] + i2[1])))
    if law == 'once-once':
        return (N('once', N('once', p, ivl=i2), ivl=i1), N('once', p, ivl=(i1[0] + i2[0], i1[1] + i2[1])))
    if law == 'since-exp':
        s = N('since', p, q)
        return s, N('or', q, N('and', p, N('s_prev', s)))
    if law == 'until-exp':
        u = N('until', p, q)
        return u, N('or', q, N('and', p, N('s_next', u)))
    raise ValueError(law)


class C18(Prop):
    id = 'C18'
    rule_added = 'A tenth of the discrete ev-ev / once-once instances on two time scales (period 1 ms, outer window in bare seconds, inner window with the same numerals in ms). 8% of the discrete offline/online cases on Boolean-valued signals (every sample a Python bool, operands often the bare signals). 30% of the discrete online cases on objects that served another trace and were reset(). Bounded-future laws also through pastify()+update() under sampling periods {1 s, 500 ms, 250 ms, 2 s, 4 s}.'
    rule = ('for each of the 8 stated laws, operands p,q are random formulas (depth<=3), bounds random, traces '
            '1..30 samples; both sides are evaluated by the same real monitor kind (discrete offline: all laws; '
            'discrete online: the past laws; dense offline: all but the s_prev/s_next expansions) and compared at '
            'every position where neither side is NaN-tainted. distinct = hash(law, kind, operands, bounds, data); '
            'non-trivial = n>=2 and the common value is not constant.')
    assumptions = ['NaN positions (inf-inf under iff/xor/arithmetic) are not compared: min/max with NaN is '
                   'order-dependent, so neither side is determined there']
    floors = {'quick': (300, 80), 'thorough': (5000, 1500)}
    must_reach = ['offline/ast_visitor:StlDiscreteTimeOfflineAstVisitor.visitTimedOnce']
    quick_cases = 2400
    thorough_cases = 1200000
    shrink_data = False

    def gen_dense(self, rng):
        from rtverif.props.c04 import sig_text
        law = rng.choice(DENSE_LAWS)
        c = lang.dense_cfg(rng)
        c.max_depth = min(c.max_depth, 3)
        p = lang.gen_phi(rng, c, rng.randint(0, c.max_depth))
        q = lang.gen_phi(rng, c, rng.randint(0, c.max_depth))
        i1, i2 = lang.gen_interval(rng, c), lang.gen_interval(rng, c)
        names = sorted(set(lang.variables(p) + lang.variables(q))) or ['x']
        return {'law': law, 'kind': 'ct_offline', 'p': lang.to_jsonable(p), 'q': lang.to_jsonable(q),
                'i1': [float(x) for x in i1], 'i2': [float(x) for x in i2],
                'signals': sig_text(lang.gen_signals(rng, names))}

    def judge_dense(self, case):
        from fractions import Fraction as Fr
        from rtverif import ref_dense
        from rtverif.props.c04 import sig_from_json
        v = Verdict()
        case = dict(case)
        case['i1'] = [Fr(x).limit_denominator(64) for x in case['i1']]
        case['i2'] = [Fr(x).limit_denominator(64) for x in case['i2']]
        lhs, rhs = self._sides(case)
        sig = sig_from_json(case['signals'])
        names = sorted(sig)
        try:
            el, er = ref_dense.evaluate(lhs, sig), ref_dense.evaluate(rhs, sig)
        except ref.Undefined:
            v.skip = 'reference undefined (domain error)'
            return v
        rel = max(rel_for(lhs), rel_for(rhs))
        v.info['law:%s/ct_offline' % case['law']] = 1
        try:
            a = drive.ct_offline(lang.to_text(lhs), names, sig)
            b = drive.ct_offline(lang.to_text(rhs), names, sig)
        except Exception as e:
            if any(x != x for x in el.vs) or any(x != x for x in er.vs):
                v.skip = 'raised on a NaN-tainted formula'
                return v
            v.bad('raises:' + type(e).__name__, '%s | %s (dense offline): raised %s: %s' % (
                lang.to_text(lhs), lang.to_text(rhs), type(e).__name__, e))
            return v
        start = max(s[0][0] for s in sig.values())
        end = min(s[-1][0] for s in sig.values())
        v.nontrivial = len(el.compact().ts) >= 2
        if end < start:
            return v
        for t in ref_dense.probe_times(el, list(a) + list(b), start, end):
            if el.at(t) != el.at(t) or er.at(t) != er.at(t):
                continue
            x, y = ref_dense.out_value(a, t), ref_dense.out_value(b, t)
            if x is None or y is None or not ref.same(x, y, rel):
                v.bad('law:' + case['law'], 'dense offline monitor, law %s: %s gives %r but %s gives %r at t=%s; '
                      'signals=%s' % (case['law'], lang.to_text(lhs), x, lang.to_text(rhs), y, float(t), case['signals']))
                break
        return v

    def gen_dense_online(self, rng):
        from fractions import Fraction as Fr
        from rtverif.props.c04 import sig_text
        law = rng.choice(PAST_LAWS[:-1])           # the since expansion needs s_prev (discrete time only)
        c = lang.dense_cfg(rng, future=False)
        c.max_depth = min(c.max_depth, 2)
        c.untyped = 0.3                             # bare variables as operands: nothing swallows a repeated sample
        p = lang.gen_phi(rng, c, rng.randint(0, c.max_depth))
        q = lang.gen_phi(rng, c, rng.randint(0, c.max_depth))
        if law == 'implies' and rng.random() < 0.5:
            # the antecedent is a bare signal that occurs again as a direct operand inside the consequent
            # (`x implies (x or y)`): both occurrences read the very same sample list
            p = lang.V(c.vars[0])
            other = lang.V(c.vars[-1]) if rng.random() < 0.6 else q
            q = lang.N(rng.choice(['or', 'and', 'implies', 'iff', 'xor']), *rng.sample([p, other], 2))
        i1, i2 = lang.gen_interval(rng, c), lang.gen_interval(rng, c)
        names = sorted(set(lang.variables(p) + lang.variables(q))) or ['x']
        n = rng.randint(2, 8)
        base = lang.gen_signal(rng, n=n, start=Fr(0))
        sig = dict((k, [(t, rng.choice(lang.SMALL)) for (t, _) in base]) for k in names)
        cuts = sorted(rng.sample(range(1, n), rng.randint(1, n - 1))) if n > 1 else []
        return {'law': law, 'kind': 'ct_online', 'p': lang.to_jsonable(p), 'q': lang.to_jsonable(q),
                'i1': [float(x) for x in i1], 'i2': [float(x) for x in i2], 'signals': sig_text(sig), 'cuts': cuts,
                'repeat_frontier': rng.random() < 0.5}

    def judge_dense_online(self, case):
        from fractions import Fraction as Fr
        from rtverif import ref_dense
        from rtverif.props.c04 import sig_from_json
        v = Verdict()
        case = dict(case)
        case['i1'] = [Fr(x).limit_denominator(64) for x in case['i1']]
        case['i2'] = [Fr(x).limit_denominator(64) for x in case['i2']]
        lhs, rhs = self._sides(case)
        sig = sig_from_json(case['signals'])
        names = sorted(sig)
        try:
            el, er = ref_dense.evaluate(lhs, sig), ref_dense.evaluate(rhs, sig)
        except ref.Undefined:
            v.skip = 'reference undefined (domain error)'
            return v
        rel = max(rel_for(lhs), rel_for(rhs))
        v.info['law:%s/ct_online' % case['law']] = 1
        n = len(sig[names[0]])
        bounds = [0] + list(case['cuts']) + [n]

        def run(f):
            m = drive.Mon('ct', {'text': lang.to_text(f), 'vars': names})
            out = []
            for a, b in zip(bounds, bounds[1:]):
                a2 = a - 1 if (case.get('repeat_frontier') and a > 0) else a
                out += m.update(*[[k, [[float(t), val] for t, val in sig[k][a2:b]]] for k in names])
            return out
        try:
            a = run(lhs)
            b = run(rhs)
        except Exception as e:
            if any(x != x for x in el.vs) or any(x != x for x in er.vs):
                v.skip = 'raised on a NaN-tainted formula'
                return v
            v.bad('raises:' + type(e).__name__, '%s | %s (dense online, cuts %s): raised %s: %s' % (
                lang.to_text(lhs), lang.to_text(rhs), case['cuts'], type(e).__name__, e))
            return v
        fa = [s for s in a if s[0] == s[0] and abs(s[0]) != float('inf')]
        fb = [s for s in b if s[0] == s[0] and abs(s[0]) != float('inf')]
        if not fa or not fb:
            return v
        lo = max(ref_dense.Q(fa[0][0]), ref_dense.Q(fb[0][0]), Fr(0))
        hi = min(ref_dense.Q(fa[-1][0]), ref_dense.Q(fb[-1][0]), sig[names[0]][-1][0])
        v.nontrivial = len(case['cuts']) >= 1 and hi > lo
        if case['law'] in ('implies', 'dual-once-hist', 'dual-once-hist-unb') and not (
                any(x != x for x in el.vs) or any(x != x for x in er.vs)):
            # "identical signals": the two sides of these laws have the same operators over the same operands fed with
            # the same batches, so they also cover the same stretch of time (a side that silently loses its first
            # samples is not the same signal)
            if ref_dense.Q(fa[0][0]) != ref_dense.Q(fb[0][0]) or ref_dense.Q(fa[-1][0]) != ref_dense.Q(fb[-1][0]):
                v.bad('law-coverage:' + case['law'], 'dense online monitor (cuts %s, repeated frontier=%s), law %s: %s covers '
                      '[%s, %s] but %s covers [%s, %s]; signals=%s' % (
                          case['cuts'], case.get('repeat_frontier'), case['law'], lang.to_text(lhs), fa[0][0], fa[-1][0],
                          lang.to_text(rhs), fb[0][0], fb[-1][0], case['signals']))
                return v
        if hi < lo:
            return v
        for t in ref_dense.probe_times(el, list(fa) + list(fb), lo, hi):
            if el.at(t) != el.at(t) or er.at(t) != er.at(t):
                continue
            x, y = ref_dense.out_value(a, t), ref_dense.out_value(b, t)
            if x is None or y is None or not ref.same(x, y, rel):
                v.bad('law:' + case['law'], 'dense online monitor (cuts %s, repeated frontier=%s), law %s: %s gives %r but '
                      '%s gives %r at t=%s; signals=%s' % (case['cuts'], case.get('repeat_frontier'), case['law'],
                                                          lang.to_text(lhs), x, lang.to_text(rhs), y, float(t),
                                                          case['signals']))
                break
        return v

    def gen(self, rng, ctx):
        r0 = rng.random()
        if r0 < 0.15:
            return self.gen_dense_online(rng)
        if r0 < 0.4:
            return self.gen_dense(rng)
        kind = rng.choice(['dt_offline', 'dt_offline', 'dt_online', 'dt_pastified'])
        law = rng.choice(PAST_LAWS if kind == 'dt_online' else FUT_LAWS if kind == 'dt_pastified' else LAWS)
        nv = rng.choice([1, 2, 2, 3])
        c = lang.GenCfg(vars=list(lang.VAR_POOL[:nv]), max_depth=rng.choice([0, 1, 2, 3]),
                        max_bound=rng.choice([2, 4, 6]))
        c.wide = 0.04          # a few windows of 64..200 samples
        if kind in ('dt_online', 'dt_pastified'):
            c.future = False
        if rng.random() < 0.3:
            c.untyped = 0.2
        p = lang.gen_phi(rng, c, rng.randint(0, c.max_depth))
        q = lang.gen_phi(rng, c, rng.randint(0, c.max_depth))
        i1, i2 = lang.gen_interval(rng, c), lang.gen_interval(rng, c)
        n = rng.randint(1, 30)
        names = sorted(set(lang.variables(p) + lang.variables(q))) or ['x']
        case = {'law': law, 'kind': kind, 'p': lang.to_jsonable(p), 'q': lang.to_jsonable(q), 'i1': list(i1),
                'i2': list(i2), 'data': lang.gen_trace(rng, names, n)}
        if kind in ('dt_offline', 'dt_online') and law in ('ev-ev', 'once-once') and rng.random() < 0.1:
            # two time scales in one law instance: sampling period 1 ms, default unit s; the outer window is written
            # in (bare) seconds, the inner one with the same or similar numerals in ms - `eventually[0,2]
            # eventually[0,2ms] p` against `eventually[0ms,2002ms] p`
            a1 = rng.choice([0, 0, 1])
            b1 = rng.randint(max(a1, 1), 2)
            a2, b2 = (a1, b1) if rng.random() < 0.6 else tuple(sorted([rng.randint(0, 3), rng.randint(0, 3)]))
            # (the operand is a plain predicate: rtamt's windows of 1000-2000 samples are costly enough)
            p2 = lang.N(rng.choice(['geq', 'leq', 'gt']), lang.V(names[0]), lang.C(rng.choice([0.0, 1.0, 2.0])))
            case.update({'i1': [a1 * 1000, b1 * 1000], 'i2': [a2, b2], 'two_scales': True, 'p': lang.to_jsonable(p2),
                         'data': lang.gen_trace(rng, [names[0]], rng.randint(6, 24))})
        if kind in ('dt_offline', 'dt_online') and rng.random() < 0.08:
            # Boolean-valued signals: every sample is a Python bool (True/False), the operands of the law are often
            # the bare signals themselves
            if rng.random() < 0.6:
                p = lang.V(names[0]) if rng.random() < 0.7 else p
                q = lang.V(names[-1]) if rng.random() < 0.7 else q
                names = sorted(set(lang.variables(p) + lang.variables(q))) or ['x']
            case.update({'p': lang.to_jsonable(p), 'q': lang.to_jsonable(q), 'booleans': True,
                         'data': dict((k, [float(rng.random() < 0.5) for _ in range(n)]) for k in names)})
        if kind in ('dt_offline', 'dt_online') and rng.random() < 0.05 and law in (
                'dual-ev-alw', 'dual-once-hist', 'ev-ev', 'once-once'):
            # the windows of the law itself are wide (13..200 samples) and the trace is longer than they are, over a
            # tiny value alphabet: the extreme value of a window occurs several times and slides out while a later
            # copy is still inside (what separates a correct long-window algorithm from an almost correct one; the
            # two sides of a law use different operators - once vs historically, nested vs flat)
            w1 = lang.wide_width(rng)
            i1 = (rng.choice([0, 0, 1, 5]), 0)
            i1 = (i1[0], i1[0] + w1)
            if law in ('ev-ev', 'once-once'):
                i2 = rng.choice([(0, rng.randint(1, 12)), (rng.randint(0, 3), rng.randint(3, 9)), (0, lang.wide_width(rng) // 2)])
            c2 = lang.GenCfg(vars=names[:1], max_depth=1, timed=False, unbounded_future=False, unbounded_past=False,
                             prevnext=False, since_until=False, future=(kind == 'dt_offline'))
            p = lang.gen_phi(rng, c2, rng.choice([0, 0, 1]))
            names = sorted(set(lang.variables(p))) or ['x']
            n = w1 + i1[0] + rng.randint(10, 80)
            case.update({'p': lang.to_jsonable(p), 'i1': list(i1), 'i2': list(i2), 'wide_law': True,
                         'data': dict((k, lang.gen_values(rng, n, rng.choice(['tiny', 'tiny', 'steps']))) for k in names)})
        if kind == 'dt_pastified':
            # bounded-future laws through pastify() + update(), under a sampling period that need not be 1 s
            case['period'] = rng.choice([[1, 's'], [500, 'ms'], [2, 's'], [250, 'ms'], [4, 's']])
            case['data'] = lang.gen_trace(rng, names, n + 8)
        if kind == 'dt_online' and rng.random() < 0.3:
            case['prelude'] = lang.gen_trace(rng, names, rng.randint(1, 12))    # an earlier run, then reset()
        return case

    def extra(self, ctx):
        """Enumerated in every run: the window laws with wide law windows (just above every power of two from 16 on)
        on traces longer than the window over a tiny alphabet, offline and online."""
        rng = ctx.rng
        N, V, C = lang.N, lang.V, lang.C
        combos = [(kind, law, w) for w in (17, 33, 65, 129) for kind, laws in (
            ('dt_offline', ('dual-once-hist', 'dual-ev-alw', 'once-once', 'ev-ev')), ('dt_online', ('dual-once-hist', 'once-once')))
            for law in laws]
        combos = [c for i, c in enumerate(combos) if i % ctx.nshards == ctx.shard]
        for kind, law, w in combos:
            if ctx.out_of_time():
                break
            a = rng.choice([0, 1, 5])
            p = rng.choice([V('x'), N('geq', V('x'), C(1.0)), N('leq', V('x'), C(1.0))])
            n = a + w + rng.randint(15, 40)
            self.check(ctx, {'law': law, 'kind': kind, 'p': lang.to_jsonable(p), 'q': lang.to_jsonable(p),
                             'i1': [a, a + w], 'i2': [0, rng.randint(1, 6)], 'wide_law': True,
                             'data': {'x': lang.gen_values(rng, n, 'tiny')}})
            ctx.count('enumerated-wide-law-windows')

    def brief(self, case):
        c = dict(case)
        if case['kind'] in ('ct_offline', 'ct_online'):
            return c
        l, r = self._sides(case)
        c['lhs'], c['rhs'] = lang.to_text(l), lang.to_text(r)
        return c

    def _sides(self, case):
        return sides(case['law'], lang.from_jsonable(case['p']), lang.from_jsonable(case['q']),
                     tuple(case['i1']), tuple(case['i2']))

    def shrinkable(self, case):
        return False

    def run_side(self, kind, f, names, data, n, prelude=None):
        text = lang.to_text(f)
        sdb = {'typed': [True, False]} if self._booleans else None
        if self._two_scales:
            # (bounds are numbers of 1 ms samples: multiples of 1000 are printed as bare seconds, the rest in ms)
            pr = lambda i: ('[%d,%d]' % (i[0] // 1000, i[1] // 1000) if (i[1] >= 1000 and i[0] % 1000 == 0 and i[1] % 1000 == 0)
                            else '[%dms,%dms]' % (i[0], i[1]))
            text = lang.to_text(f, ivl_printer=pr)
            sdb = dict(sdb or {}, period=(1, 'ms', 0.1), unit='s')
        if kind == 'dt_offline':
            return drive.values(drive.dt_offline(text, names, data, n, sd=sdb))
        if kind == 'dt_online':
            return drive.dt_online(text, names, data, n, prelude=prelude, sd=sdb)
        if kind == 'dt_pastified':
            import random
            from fractions import Fraction as Fr
            from rtverif.props.c08 import Speller, U
            per = self._period
            P = per[0] * U[per[1]]
            text = lang.to_text(f, ivl_printer=Speller(random.Random(0), P, 's', 'default').ivl)
            out = drive.dt_online(text, names, data, n, times=[float(Fr(i * P, U['s'])) for i in range(n)],
                                  sd={'period': (per[0], per[1], 0.1)}, pastify=True)
            h = lang.horizon(f)
            return out[h:] + [float('nan')] * h          # value for time t is returned by update #(t+h)
        raise ValueError(kind)

    def judge(self, case):
        if case['kind'] == 'ct_offline':
            return self.judge_dense(case)
        if case['kind'] == 'ct_online':
            return self.judge_dense_online(case)
        v = Verdict()
        lhs, rhs = self._sides(case)
        data = case['data']
        names = sorted(data)
        n = len(data[names[0]])
        kind = case['kind']
        try:
            el = ref.evaluate(lhs, data, n)
            er = ref.evaluate(rhs, data, n)
        except ref.Undefined:
            v.skip = 'reference undefined (domain error)'
            return v
        rel = max(rel_for(lhs), rel_for(rhs))
        v.info['law:%s/%s' % (case['law'], kind)] = 1
        self._period = case.get('period')
        self._booleans = bool(case.get('booleans'))
        self._two_scales = bool(case.get('two_scales'))
        if self._two_scales:
            v.info['class:two-time-scales'] = 1
        if case.get('wide_law'):
            v.info['class:wide-law-windows-on-long-traces'] = 1
        if self._booleans:
            v.info['class:boolean-valued-signals'] = 1
        if self._period:
            v.info['period:%s%s' % tuple(self._period)] = 1
        try:
            a = self.run_side(kind, lhs, names, data, n, case.get('prelude'))
            b = self.run_side(kind, rhs, names, data, n, case.get('prelude'))
            if case.get('prelude'):
                v.info['class:after-reset'] = 1
        except Exception as e:
            v.bad('raises:' + type(e).__name__, '%s | %s (%s): raised %s: %s' % (
                lang.to_text(lhs), lang.to_text(rhs), kind, type(e).__name__, e))
            return v
        v.nontrivial = n >= 2 and len(set(map(repr, el))) > 1
        for t in range(n):
            if el[t] != el[t] or er[t] != er[t]:
                continue
            if kind == 'dt_pastified' and t >= n - max(lang.horizon(lhs), lang.horizon(rhs)):
                continue                 # not yet reported by one of the delayed monitors
            if not ref.same(a[t], b[t], rel):
                v.bad('law:' + case['law'], '%s monitor, law %s: %s gives %r but %s gives %r at t=%d; data=%s' % (
                    kind, case['law'], lang.to_text(lhs), a[t], lang.to_text(rhs), b[t], t, data))
                break
        return v


PROP = C18()
