"""C13 — sampling_violation_counter counts exactly the out-of-tolerance gaps."""
from fractions import Fraction as Fr
from rtverif import lang, drive
from rtverif import ref_discrete as ref
from rtverif.props.base import Prop, Verdict, fmt

U = {'s': 10 ** 9, 'ms': 10 ** 6, 'us': 10 ** 3, 'ns': 1}
TOLS = [0.0, 0.125, 0.25, 0.5, 1.0, 0.1]
FORMULAS = ['(x >= 1)', '(once[0,2] (x >= 1))', '(historically (x <= 2))', 'rise((x > 0))', '(prev (x >= 0))']


def closed_form(stamps, period, punit, unit, tol):
    P = Fr(period) * U[punit] / U[unit]
    lo, hi = P * (1 - Fr(tol)), P * (1 + Fr(tol))
    return sum(1 for a, b in zip(stamps, stamps[1:]) if not (lo <= Fr(b) - Fr(a) <= hi))


class C13(Prop):
    id = 'C13'
    rule_added = 'In every run 2 (thorough 32) runs of 2300-4500 stamps with about half of the gaps out of tolerance. 25% of online cases after an earlier run + reset(); 25% of all cases on an object configured differently before. 12% with epoch-size integer time-stamps (beyond 2**53). The first stamp may be negative. 20%: an earlier recording under another period/tolerance on the same object, then set_sampling_period() to the real configuration (offline: the counter continues, so the difference is judged). 15% of the online runs contain an update that fails part-way (sample None), caught by the caller: the counter must equal the count with or without that stamp.'
    rule = ('time-stamp sequences of 1..50 stamps with dyadic gaps (on-period, exactly on either tolerance bound, '
            'just inside/outside, zero, huge) x period in {1 s, 500 ms, 2 s, 250000 us, 4 ms} x default unit in '
            '{s, ms, us} x tolerance in {0, 1/8, 1/4, 1/2, 1, 0.1 (kept away from the bounds)} x '
            '{online updates, offline time column on StlDiscreteTimeSpecification and on the offline-only class}; '
            'the counter is compared with the closed-form count in exact rational arithmetic and the robustness '
            'values with those of the same data on ideal stamps. distinct = hash(case); non-trivial = >=2 gaps, of '
            'which at least one inside and one outside the tolerance band.')
    assumptions = ['time-stamps are in the default unit of the specification (README time_units_5/6)',
                   'all quantities dyadic (or kept 1e-6 away from a bound) so float arithmetic in a correct '
                   'implementation is exact at the decision points']
    floors = {'quick': (300, 80), 'thorough': (5000, 1500)}
    must_reach = ['discrete_time_interpreter:DiscreteTimeInterpreter.update_sampling_violation_counter']
    quick_cases = 3000
    # the counter is cumulative over the evaluate() calls of one object (the statement counts the stamps "supplied"),
    # so an offline prehistory would legitimately add to it; C13 has its own after-reset and reconfiguration classes
    object_histories = False
    thorough_cases = 2000000

    def shrinkable(self, case):
        return False

    def gen(self, rng, ctx):
        period, punit = rng.choice([(1, 's'), (1, 's'), (500, 'ms'), (2, 's'), (250000, 'us'), (4, 'ms')])
        unit = rng.choice(['s', 's', 'ms', 'us'])
        tol = rng.choice(TOLS)
        P = Fr(period) * U[punit] / U[unit]
        n = rng.choice([1, 2, 3, 5, 8, 13, 21, 50]) if rng.random() < 0.6 else rng.randint(1, 50)
        t = Fr(rng.choice([0, 0, 0, 3, 16, -3, -20, -1])) * P        # (recordings relative to a trigger start below 0)
        stamps = [t]
        for _ in range(n - 1):
            r = rng.random()
            if tol == 0.1:
                k = rng.choice([Fr(1), Fr(1), Fr(17, 16), Fr(15, 16), Fr(5, 4), Fr(3, 4), Fr(2), Fr(1, 2), Fr(9, 8)])
            elif r < 0.4:
                k = Fr(1)
            elif r < 0.55:
                k = 1 + Fr(tol)
            elif r < 0.7:
                k = 1 - Fr(tol)
            elif r < 0.8:
                k = 1 + Fr(tol) + Fr(1, 64)
            elif r < 0.9:
                k = max(Fr(0), 1 - Fr(tol) - Fr(1, 64))
            elif r < 0.95:
                k = Fr(rng.choice([0, 3, 10]))
            else:
                k = Fr(rng.randint(1, 255), 128)
            t = t + k * P
            stamps.append(t)
        mode = rng.choice(['online', 'online_only', 'offline', 'offline_only'])
        epoch = None
        if rng.random() < 0.12:
            # integer time-stamps of epoch size (e.g. nanoseconds since 1970, beyond 2**53): exact as Python ints
            unit = rng.choice(['ns', 'ns', 'us'])
            P = Fr(period) * U[punit] / U[unit]
            if P.denominator == 1 and P >= 8:
                t = Fr(rng.choice([1700000000000000000, 1700000000123456789, 2 ** 60 + 12345]) if unit == 'ns' else
                       rng.choice([1700000000000000, 2 ** 55 + 777]))
                stamps = [t]
                for _ in range(n - 1):
                    k = rng.choice([Fr(1), Fr(1), Fr(1), 1 + Fr(tol), 1 - Fr(tol), 1 + Fr(tol) + Fr(1, 8), Fr(3, 4), Fr(2)])
                    t = t + int(k * P)
                    stamps.append(t)
                epoch = [int(x) for x in stamps]
        self._after_reset = None
        if mode.startswith('online') and rng.random() < 0.25:
            self._after_reset = [float(Fr(k) * P * rng.choice([1, 1, 3])) for k in range(rng.randint(1, 4))]
        return {'period': [period, punit], 'unit': unit, 'tol': tol, 'stamps': epoch or [float(s) for s in stamps],
                'mode': mode, 'text': rng.choice(FORMULAS), 'values': lang.gen_values(rng, n, 'small'),
                'after_reset': self._after_reset,
                # a bounded-future formula monitored online after pastify() (bounds written in the unit of the period):
                # the translation must not touch the unit the time-stamps are read in
                'pastified': (rng.randrange(4) if (mode.startswith('online') and rng.random() < 0.15) else None),
                # an update that fails part-way (its sample is None) at some position: the caller catches and goes on
                'fail_at': (rng.randrange(1, n) if (mode.startswith('online') and n >= 3 and rng.random() < 0.15) else None),
                'preconfig': ([period * rng.choice([1, 2]), punit, rng.choice([t for t in TOLS if t != tol])]
                              if rng.random() < 0.25 else None),
                # an earlier recording under ANOTHER sampling period / tolerance on the same object (its gaps were
                # checked), then set_sampling_period() to the real configuration (online: after reset())
                'earlier_run': ([period * rng.choice([2, 3, 5]), punit, rng.choice(TOLS), rng.randint(2, 6)]
                                if rng.random() < 0.2 else None)}

    def judge(self, case):
        v = Verdict()
        period, punit = case['period']
        unit, tol, stamps = case['unit'], case['tol'], case['stamps']
        n = len(stamps)
        if all(isinstance(s, int) for s in stamps):
            v.info['class:epoch-integer-stamps'] = 1
        if any(Fr(s) != Fr(s).limit_denominator(2 ** 40) for s in stamps):
            v.skip = 'stamp not exactly representable'
            return v
        exp = closed_form(stamps, period, punit, unit, tol)
        gaps = n - 1
        v.nontrivial = gaps >= 2 and 0 < exp < gaps
        v.info['mode:' + case['mode']] = 1
        v.info['unit:%s/period:%s%s' % (unit, period, punit)] = 1
        sd = {'text': case['text'], 'vars': ['x'], 'period': (period, punit, tol)}
        if unit != 's' or case.get('set_unit'):
            sd['unit'] = unit
        kind = {'online': 'dt', 'online_only': 'dt_on', 'offline': 'dt', 'offline_only': 'dt_off'}[case['mode']]
        vals = case['values']
        # bounded operators need bounds that are multiples of the period: [0,2] only when P = 1 unit
        P = Fr(period) * U[punit] / U[unit]
        text = case['text']
        if '[0,2]' in text and P != 1:
            text = text.replace('[0,2]', '[0,%s]' % lang.num(2 * P) if (2 * P).denominator == 1 else '[0,0]')
            sd['text'] = text
        past = case.get('pastified')
        if past is not None:
            text = ['always[0:%d%s] (x >= 1)' % (2 * period, punit), '((next x) >= 1)',
                    'eventually[%d%s:%d%s] (x <= 2)' % (period, punit, 3 * period, punit),
                    '(historically[0:%d%s] (x >= 0)) and (next (next (x <= 3)))' % (period, punit)][past]
            sd['text'] = text
            v.info['class:pastified'] = 1
        try:
            if case.get('preconfig'):
                # the object was configured differently before: the last set_sampling_period() call counts
                pp, ppu, ptol = case['preconfig']
                m = drive.Mon(kind, dict(sd, period=(pp, ppu, ptol)), parse=False)
                m.spec.set_sampling_period(period, punit, tol)
                m.parse()
                v.info['reconfigured'] = 1
            else:
                m = drive.Mon(kind, sd)
            if past is not None:
                m.pastify()
            base_count = 0
            er = case.get('earlier_run')
            if er and not case.get('preconfig') and '[' not in text:
                # (bound-free formulas only: what a change of the period after the first use does to the windows of
                # bounded operators that were already built is not the subject of this property)
                ep, epu, etol, en = er
                m.spec.set_sampling_period(ep, epu, etol)
                eP = Fr(ep) * U[epu] / U[unit]
                # (gaps of 1 and of 2.5 old periods: some inside, some outside the old band)
                est = [float(eP * k) for k in [0, 1, 2, Fr(9, 2), Fr(11, 2), 8][:en]]
                if any(Fr(x) != Fr(x).limit_denominator(2 ** 40) for x in est):
                    v.skip = 'stamp not exactly representable'
                    return v
                if case['mode'].startswith('online'):
                    for t0 in est:
                        m.update(t0, [('x', 0.0)])
                    m.reset()
                else:
                    m.evaluate({'time': list(est), 'x': [0.0] * len(est)})
                    base_count = closed_form(est, ep, epu, unit, etol)       # the counter is cumulative offline
                    if m.counter != base_count:
                        v.bad('counter', 'period=%s%s unit=%s tol=%s mode=%s stamps=%s: counter=%r, expected %d' % (
                            ep, epu, unit, etol, case['mode'], fmt(est, 20), m.counter, base_count))
                        return v
                m.spec.set_sampling_period(period, punit, tol)
                v.info['reconfigured-after-an-earlier-recording'] = 1
            if case['mode'].startswith('online') and case.get('after_reset'):
                # an earlier run on the same object, then reset(): the count must be that of the new run alone
                for j, t0 in enumerate(case['after_reset']):
                    m.update(t0, [('x', 0.0)])
                m.reset()
                v.info['after-reset-runs'] = 1
                if n % 2 == 0:
                    # a second earlier episode (out-of-tolerance gaps after the first reset()), and a second reset()
                    for j in range(4):
                        m.update(float(Fr(j * j) * P * 3), [('x', 0.0)])
                    m.reset()
                    if m.counter != 0:
                        v.bad('counter-after-second-reset', 'period=%s%s unit=%s: counter=%r right after the second reset()' % (
                            period, punit, unit, m.counter))
                        return v
                    v.info['two-earlier-episodes'] = 1
            fail_at = case.get('fail_at')
            if case['mode'].startswith('online') and fail_at is not None:
                out = []
                for i in range(n):
                    if i == fail_at:
                        try:
                            m.update(stamps[i], [('x', None)])
                            v.skip = 'the update without a number did not fail'
                            return v
                        except Exception:
                            v.info['failing-update-in-the-run'] = 1
                            continue
                    out.append(m.update(stamps[i], [('x', vals[i])]))
            elif case['mode'].startswith('online') and n >= 4 and (n + len(case['text'])) % 5 == 0:
                # the same configuration is applied again in the middle of the run (a supervisor re-sending its
                # settings): nothing changes, the gap that straddles the call is a gap like every other
                out = []
                for i in range(n):
                    if i == n // 2:
                        m.spec.set_sampling_period(period, punit, tol)
                        v.info['same-configuration-re-applied-mid-run'] = 1
                    out.append(m.update(stamps[i], [('x', vals[i])]))
            elif case['mode'].startswith('online'):
                out = [m.update(stamps[i], [('x', vals[i])]) for i in range(n)]
            else:
                out = drive.values(m.evaluate({'time': list(stamps), 'x': list(vals)}))
            got = m.counter - base_count
        except Exception as e:
            v.bad('raises:' + type(e).__name__, '%r: raised %s: %s' % (case, type(e).__name__, e))
            return v
        if case.get('fail_at') is not None and case['mode'].startswith('online'):
            # the statement does not say whether the stamp of a failed update was "supplied": both counts are
            # admissible (with and without it), nothing else is; the values are not compared for this class
            without = closed_form(stamps[:case['fail_at']] + stamps[case['fail_at'] + 1:], period, punit, unit, tol)
            if got not in (exp, without):
                v.bad('counter-after-failing-update', 'period=%s%s unit=%s tol=%s mode=%s stamps=%s, update #%d failed '
                      '(sample None): counter=%r, expected %d (failed stamp counted) or %d (not counted)' % (
                          period, punit, unit, tol, case['mode'], fmt(stamps, 20), case['fail_at'], got, exp, without))
            return v
        if got != exp:
            v.bad('counter', 'period=%s%s unit=%s tol=%s mode=%s stamps=%s: counter=%r, expected %d out-of-tolerance '
                  'gaps' % (period, punit, unit, tol, case['mode'], fmt(stamps, 20), got, exp))
        # jitter must not affect the robustness values: same data on ideal stamps, fresh object
        try:
            m2 = drive.Mon(kind, sd, pastify=past is not None)
            ideal = [float(Fr(i) * P) for i in range(n)]
            if all(isinstance(s, int) for s in stamps) and P.denominator == 1:
                ideal = [int(Fr(i) * P) for i in range(n)]
            if case['mode'].startswith('online'):
                out2 = [m2.update(ideal[i], [('x', vals[i])]) for i in range(n)]
            else:
                out2 = drive.values(m2.evaluate({'time': ideal, 'x': list(vals)}))
            c2 = m2.counter
        except Exception as e:
            v.bad('raises-ideal:' + type(e).__name__, '%r: raised %s on ideal stamps: %s' % (case, type(e).__name__, e))
            return v
        if c2 != 0:
            v.bad('counter-ideal', 'period=%s%s unit=%s tol=%s mode=%s: counter=%r on ideal stamps %s' % (
                period, punit, unit, tol, case['mode'], c2, fmt(ideal, 8)))
        if any(not ref.same(a, b) for a, b in zip(out, out2)) or len(out) != len(out2):
            v.bad('jitter-changes-values', 'robustness differs between jittered and ideal stamps: %s vs %s' % (
                fmt(out), fmt(out2)))
        return v


    def extra(self, ctx):
        """Long runs: thousands of stamps, about half of the gaps out of tolerance (a counter that saturates, wraps or
        is kept in a bounded log would show)."""
        rng = ctx.rng
        for _ in range(2 if ctx.tier == 'quick' else max(1, 32 // ctx.nshards)):
            if ctx.out_of_time():
                break
            n = rng.choice([2300, 3000, 4500])
            t, stamps = 0.0, [0.0]
            for i in range(n - 1):
                t += 1.0 if rng.random() < 0.5 else rng.choice([2.0, 0.5, 3.0])
                stamps.append(t)
            self.check(ctx, {'period': [1, 's'], 'unit': 's', 'tol': 0.125, 'stamps': stamps,
                             'mode': rng.choice(['online', 'offline', 'online_only', 'offline_only']), 'text': '(x >= 1)',
                             'values': [rng.choice([0.0, 2.0]) for _ in range(n)], 'after_reset': None, 'fail_at': None,
                             'preconfig': None, 'earlier_run': None})
            ctx.count('class:long-runs')


PROP = C13()
