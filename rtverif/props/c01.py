"""C01 — discrete-time offline evaluate() equals the README robustness semantics."""
from rtverif import lang, drive
from rtverif import ref_discrete as ref
from rtverif.props.base import Prop, Verdict, fmt, first_diff

TRANSC = set(['exp', 'sqrt', 'pow', 'ln', 'log', 'div'])


def rel_for(f):
    return 1e-9 if (lang.ops_of(f) & TRANSC) else 0.0


def alt_times(n):
    t, out = 7.0, []
    for i in range(n):
        out.append(t)
        t += 0.5 + (i % 3) * 0.75
    return out


class C01(Prop):
    id = 'C01'
    rule_added = '12% under another sampling period x default unit x spelling (mixed-unit bounds favoured).'
    rule = ('grammar-directed random STL formulas (depth<=5, all operators incl. unary minus, transcendental '
            'functions, six comparisons, rise/fall, weak/strong prev/next, bounded+unbounded past/future, '
            'until/since/unless) x random dyadic traces (1..40 samples, 1..4 variables); each case: fresh spec, '
            'evaluate(), compared value-by-value with the reference semantics, then re-evaluated on a fresh spec '
            'with non-uniform time-stamps. distinct = hash of (formula, data); non-trivial = contains a temporal '
            'or event operator, n>=2 and the reference result is not constant.')
    assumptions = ['reference semantics rtverif/ref_discrete.py transcribes the README definition with the '
                   'conventions the suite pins (validated against the suite literals by selftest)',
                   'positions where the reference is NaN (inf-inf) are not compared']
    floors = {'quick': (300, 100), 'thorough': (5000, 2000)}
    must_reach = ['offline/ast_visitor:StlDiscreteTimeOfflineAstVisitor.visitPredicate']
    quick_cases = 2500
    thorough_cases = 3000000
    kind = 'dt'

    def cfg(self, rng):
        r = rng.random()
        nv = rng.choice([1, 2, 2, 3, 4])
        c = lang.GenCfg(vars=list(lang.VAR_POOL[:nv]), max_depth=rng.choice([1, 2, 3, 3, 4, 5]),
                        unless=True, max_bound=rng.choice([3, 6, 12]))
        c.wide = 0.04          # a few windows of 64..200 samples
        if r < 0.2:
            c.transcend = True
        if r > 0.7:
            c.untyped = 0.25
        if 0.5 < r < 0.6:
            c.dup = 0.3
        return c

    def gen(self, rng, ctx):
        c = self.cfg(rng)
        if rng.random() < 0.02:
            # windows of 33..200 samples on traces of 100..260 samples over a tiny value alphabet (the extreme value
            # repeats inside one window and its oldest copy leaves before the others)
            c.wide, c.max_depth, c.dup, c.transcend = 0.8, rng.choice([1, 2]), 0.0, False
            for _ in range(40):
                f = lang.gen_formula(rng, c)
                if any(g[1] is not None and g[1][1] - g[1][0] >= 32 for g in lang.walk(f)) and not any(
                        g[0] in ('since', 'until', 'unless') and g[1] is not None for g in lang.walk(f)):
                    break
            names = lang.variables(f) or [c.vars[0]]
            n = rng.randint(100, 260)
            return {'formula': f, 'data': dict((k, lang.gen_values(rng, n, rng.choice(['tiny', 'tiny', 'small']))) for k in names),
                    'kind': rng.choice(['dt', 'dt_off']), 'long': True}
        f = lang.gen_formula(rng, c)
        n = rng.choice([1, 1, 2, 3, 4, 5, 6, 8, 10, 13, 20, 40]) if rng.random() < 0.7 else rng.randint(1, 40)
        if rng.random() < 0.08:
            x = lang.V(rng.choice(c.vars))
            inner = lang.N(rng.choice(['always', 'eventually']), x, ivl=(rng.choice([0, 0, 1]), n + rng.randint(0, 4)))
            f = lang.N(rng.choice(['and', 'or', 'add', 'until', 'since']), *rng.sample([inner, rng.choice([x, f])], 2))
        names = lang.variables(f) or [c.vars[0]]
        extra = [v for v in c.vars if v not in names]
        if extra and rng.random() < 0.2:
            names = names + extra[:1]
        data = lang.gen_trace(rng, names, n)
        case = {'formula': f, 'data': data, 'kind': rng.choice(['dt', 'dt', 'dt_off'])}
        if rng.random() < 0.1:
            case['useed'] = rng.randrange(1 << 30)
        elif rng.random() < 0.2 and not any(g[0] in ('since', 'until', 'unless') and g[1] is not None
                                             for g in lang.walk(f)):
            from rtverif.props.c08 import PERIODS, MODES
            case['period'] = [list(rng.choice(PERIODS)), rng.choice(['s', 'ms', 'us']),
                              rng.choice(list(MODES) + ['both'] * 6),
                              rng.randrange(1 << 30)]
            return case
        if rng.random() < 0.25:
            # the same specification object evaluated again on other traces (other values, other lengths)
            case['more'] = [lang.gen_trace(rng, names, rng.choice([1, 2, 3, n, n + 3, 9]))
                            for _ in range(rng.randint(1, 2))]
        return case

    def judge(self, case):
        v = Verdict()
        f, data = case['formula'], case['data']
        names = sorted(data)
        n = len(data[names[0]])
        text = lang.to_text(f)
        if case.get('useed') is not None:
            import random
            text = lang.unit_text(f, random.Random(case['useed']))       # same durations, unit-suffix notation
            v.info['class:unit-suffixes'] = 1
        try:
            exp = ref.evaluate(f, data, n)
        except ref.Undefined:
            v.skip = 'reference undefined (domain error)'
            return v
        rel = rel_for(f)
        kind = case.get('kind', 'dt')
        ops = lang.ops_of(f)
        v.nontrivial = bool(ops & set(lang.STATEFUL)) and n >= 2 and len(set(map(repr, exp))) > 1
        for o in ops:
            v.info['op:' + o] = 1
        v.info['len:%s' % ('1' if n == 1 else '2-5' if n <= 5 else '6+')] = 1
        ds = drive.dt_dataset(data, n)
        sd = {'text': text, 'vars': names}
        stamps = list(range(n))
        if case.get('period'):
            # another sampling period and default unit; the bounds (numbers of samples) are spelled as durations
            import random
            from fractions import Fraction as Fr
            from rtverif.props.c08 import Speller, U
            per, unit, mode, sseed = case['period']
            from rtverif.props.c08 import period_ns
            P = period_ns(per)
            sp = Speller(random.Random(sseed), P, unit, mode)
            try:
                sd = {'text': lang.to_text(f, ivl_printer=sp.ivl), 'vars': names, 'consts': sp.consts,
                      'period': (per[0], per[1], 0.1), 'unit': unit}
                text = sd['text'] + ' [period %s%s, unit %s]' % (per[0], per[1], unit)
                stamps = [float(Fr(i * P, U[unit])) for i in range(n)]
                ds = drive.dt_dataset(data, n, stamps)
                v.info['class:sampling-period'] = 1
            except ValueError:
                sd = {'text': text, 'vars': names}
        try:
            mon = drive.Mon(kind, sd)
            res = mon.evaluate(ds)
        except Exception as e:
            v.bad('raises:' + type(e).__name__, '%s on n=%d: evaluate raised %s: %s' % (text, n, type(e).__name__, e),
                  self.classify(case, 'raises', type(e).__name__))
            return v
        if not isinstance(res, list) or len(res) != n or any((not isinstance(r, (list, tuple))) or len(r) != 2
                                                             for r in res):
            v.bad('shape', '%s: %d samples in, result %r' % (text, n, res if not isinstance(res, list) else len(res)))
            return v
        if [r[0] for r in res] != stamps:
            v.bad('time-column', '%s: time column %s != input' % (text, fmt([r[0] for r in res])))
        obs = drive.values(res)
        i = first_diff(obs, exp, rel)
        if i is not None:
            v.bad('value', '%s data=%s: at sample %d observed %r expected %r (obs=%s exp=%s)' % (
                text, data, i, obs[i], exp[i], fmt(obs), fmt(exp)), self.classify(case, 'value', ''))
            return v
        # the same object on further traces: every evaluation must be exact, not only the first
        for k, d2 in enumerate(case.get('more') or []):
            n2 = len(d2[names[0]])
            try:
                exp2 = ref.evaluate(f, d2, n2)
                res2 = mon.evaluate(drive.dt_dataset(d2, n2))
            except ref.Undefined:
                break
            except Exception as e:
                v.bad('reuse-raises:' + type(e).__name__, '%s: evaluate() #%d on the same object (trace %s) raised %s: %s'
                      % (text, k + 2, d2, type(e).__name__, e))
                return v
            v.info['reused-object-evaluations'] = v.info.get('reused-object-evaluations', 0) + 1
            if len(res2) != n2 or first_diff(drive.values(res2), exp2, rel) is not None:
                v.bad('reuse-value', '%s: evaluate() #%d on the same specification object, trace %s: returned %s, '
                      'expected %s (first trace was %s)' % (text, k + 2, d2, fmt(drive.values(res2)), fmt(exp2), data))
                return v
        if case.get('period'):
            return v
        # time-stamp independence, on a fresh object
        ts = alt_times(n)
        try:
            res2 = drive.Mon(kind, {'text': text, 'vars': names}).evaluate(drive.dt_dataset(data, n, ts))
        except Exception as e:
            v.bad('raises-alt-times:' + type(e).__name__, '%s: evaluate with stamps %s raised %s: %s' % (
                text, fmt(ts), type(e).__name__, e))
            return v
        if [r[0] for r in res2] != ts:
            v.bad('time-column', '%s: time column %s != input %s' % (text, fmt([r[0] for r in res2]), fmt(ts)))
        j = first_diff(drive.values(res2), exp, rel)
        if j is not None:
            v.bad('depends-on-stamps', '%s data=%s: with stamps %s sample %d is %r, expected %r' % (
                text, data, fmt(ts), j, res2[j][1], exp[j]))
        return v


    def extra(self, ctx):
        """Enumerated part: every temporal/event operator x every interval [a,b] with 0<=a<=b<=4 (and unbounded)
        x trace lengths 1..6 (quick: depth 1; thorough: also every outer x inner pair of temporal operators over a
        reduced interval set), operands a bare variable and a predicate, adversarial step/spike traces."""
        rng = ctx.rng
        x, y = lang.V('x'), lang.V('y')
        px, py = lang.N('geq', x, lang.C(1.0)), lang.N('leq', y, lang.C(0.5))
        un = ['once', 'historically', 'eventually', 'always']
        bi = ['since', 'until', 'unless']
        plain = ['prev', 's_prev', 'next', 's_next', 'rise', 'fall']
        ivls = [None] + [(a, b) for a in range(5) for b in range(a, 5)]
        forms = []
        for o in un:
            for iv in ivls:
                forms += [lang.N(o, x, ivl=iv), lang.N(o, px, ivl=iv)]
        for o in bi:
            for iv in ivls:
                if o == 'unless' and iv is None:
                    continue
                forms += [lang.N(o, px, py, ivl=iv), lang.N(o, x, y, ivl=iv)]
        for o in plain:
            forms += [lang.N(o, x), lang.N(o, px)]
        if ctx.tier == 'thorough':
            red = [None, (0, 0), (1, 1), (0, 2), (1, 3)]
            inner = []
            for o in un:
                inner += [lang.N(o, px, ivl=iv) for iv in red]
            for o in bi:
                inner += [lang.N(o, px, py, ivl=iv) for iv in red if not (o == 'unless' and iv is None)]
            inner += [lang.N(o, px) for o in plain]
            for o in un:
                for iv in red:
                    forms += [lang.N(o, g, ivl=iv) for g in inner]
            for o in bi:
                for iv in red:
                    if o == 'unless' and iv is None:
                        continue
                    forms += [lang.N(o, g, py, ivl=iv) for g in inner] + [lang.N(o, py, g, ivl=iv) for g in inner]
            forms += [lang.N(o, g) for o in plain for g in inner]
        forms = [f for i, f in enumerate(forms) if i % ctx.nshards == ctx.shard]
        done = 0
        for f in forms:
            if ctx.out_of_time():
                ctx.notes.append('operator x interval enumeration stopped by the wall-clock budget after %d formulas' % done)
                break
            for n in (1, 2, 3, 4, 5, 6):
                names = lang.variables(f)
                self.check(ctx, {'formula': f, 'data': lang.gen_trace(rng, names, n), 'kind': 'dt'})
            done += 1
        ctx.count('enumerated-operator-interval-formulas', done)
        # sizes that small examples do not reach: deep chains of unary operators (12..80 levels) and long traces
        # (1100 / 2100 samples) under small windows
        N, V, C = lang.N, lang.V, lang.C
        un1 = [('once', (0, 1)), ('always', (0, 1)), ('not', None), ('prev', None), ('next', None), ('eventually', (1, 1)),
               ('historically', (0, 2)), ('once', None), ('s_prev', None), ('always', (1, 2)), ('rise', None), ('fall', None)]
        for d in ((12, 40) if ctx.tier == 'quick' else (12, 20, 40, 80)):
            if ctx.out_of_time() or ctx.shard != 0 and ctx.tier == 'quick':
                break
            for rep in range(2):
                f = rng.choice([px, x, N('leq', N('abs', N('sub', x, y)), C(2.0))])
                for _ in range(d):
                    o, iv = rng.choice(un1)
                    f = N(o, f, ivl=iv) if iv is not None else N(o, f)
                    if rng.random() < 0.1:
                        f = N(rng.choice(['and', 'or']), f, py)
                nd = rng.choice([30, 60])
                self.check(ctx, {'formula': f, 'data': dict((k, lang.gen_values(rng, nd, 'small'))
                                                            for k in lang.variables(f)), 'kind': 'dt'})
                ctx.count('class:deep-chains')
        for n in ((1100,) if ctx.tier == 'quick' else (1100, 2100)):
            if ctx.out_of_time():
                break
            a = rng.randint(0, 2)
            f = rng.choice([N('always', N('implies', px, N('eventually', py, ivl=(a, a + 3))), ivl=(0, 4)),
                            N('since', N('once', px, ivl=(a, a + 2)), py),
                            N('and', N('historically', N('geq', N('sub', x, y), C(-3.0)), ivl=(a, a + 4)), N('next', N('rise', px))),
                            N('until', px, N('or', py, N('prev', px)), ivl=(a, a + 3))])
            self.check(ctx, {'formula': f, 'data': dict((k, lang.gen_values(rng, n, rng.choice(['small', 'steps', 'tiny'])))
                                                        for k in lang.variables(f)), 'kind': 'dt'})
            ctx.count('class:long-traces-1100+')


PROP = C01()
