"""Formula AST, grammar-directed generators, printers and a greedy shrinker.

A formula is a nested tuple ``(op, ivl, *kids)``; leaves are ``('var', None, name)`` and
``('const', None, value)``.  ``ivl`` is ``None`` or ``(a, b)`` (numbers, in the unit the
printer is told to use; generators produce them in *samples* for discrete time and in time
units for dense time).
"""
from fractions import Fraction
import math

UN_ARITH = ('neg', 'abs', 'sqrt', 'exp', 'ln')
BIN_ARITH = ('add', 'sub', 'mul', 'div', 'pow', 'log')
CMP = ('leq', 'lt', 'geq', 'gt', 'eq', 'neq')
BIN_BOOL = ('and', 'or', 'implies', 'iff', 'xor')
EVENTS = ('rise', 'fall')
PAST_UN = ('prev', 's_prev', 'once', 'historically')
FUT_UN = ('next', 's_next', 'eventually', 'always')
PAST_BIN = ('since',)
FUT_BIN = ('until', 'unless')
TIMEABLE = ('once', 'historically', 'eventually', 'always', 'since', 'until', 'unless')
UNARY = UN_ARITH + ('not',) + EVENTS + PAST_UN + FUT_UN
BINARY = BIN_ARITH + CMP + BIN_BOOL + PAST_BIN + FUT_BIN
STATEFUL = EVENTS + PAST_UN + PAST_BIN + FUT_UN + FUT_BIN

KW = {
    'neg': '-', 'add': '+', 'sub': '-', 'mul': '*', 'div': '/',
    'leq': '<=', 'lt': '<', 'geq': '>=', 'gt': '>', 'eq': '==', 'neq': '!==',
    'not': 'not', 'and': 'and', 'or': 'or', 'implies': 'implies', 'iff': 'iff', 'xor': 'xor',
    'prev': 'prev', 's_prev': 's_prev', 'next': 'next', 's_next': 's_next',
    'once': 'once', 'historically': 'historically', 'eventually': 'eventually',
    'always': 'always', 'since': 'since', 'until': 'until', 'unless': 'unless',
}
ALIAS = {
    'always': 'G', 'eventually': 'F', 'until': 'U', 'unless': 'W', 'since': 'S', 'once': 'O',
    'historically': 'H', 'next': 'X', 'prev': 'Y', 's_next': 'sX', 's_prev': 'sY',
    'not': '!', 'and': '&', 'or': '|', 'implies': '->', 'iff': '<->',
}

RESERVED = set('''abs sqrt exp pow log ln s ms us ns ps topic import input output internal const
real float long complex int bool assertion specification from not or and iff implies xor rise fall
always eventually until unless historically once since next prev s_next s_prev true false TRUE FALSE
G F U W H O S X Y sX sY time out'''.split())

VAR_POOL = ('x', 'y', 'z', 'w', 'req', 'gnt', 'a1', 'b_2')


def V(name):
    return ('var', None, name)


def C(val):
    return ('const', None, val)


def N(op, *kids, ivl=None):
    return (op, ivl) + tuple(kids)


def op(f):
    return f[0]


def ivl(f):
    return f[1]


def kids(f):
    return () if f[0] in ('var', 'const') else f[2:]


def is_leaf(f):
    return f[0] in ('var', 'const')


def walk(f):
    yield f
    for k in kids(f):
        for g in walk(k):
            yield g


def ops_of(f):
    return set(g[0] for g in walk(f))


def variables(f):
    out = []
    for g in walk(f):
        if g[0] == 'var' and g[2] not in out:
            out.append(g[2])
    return out


def size(f):
    return sum(1 for _ in walk(f))


def depth(f):
    return 0 if is_leaf(f) else 1 + max(depth(k) for k in kids(f))


def has_future(f):
    return any(g[0] in FUT_UN + FUT_BIN for g in walk(f))


def has_unbounded_future(f):
    return any(g[0] in ('eventually', 'always', 'until') and g[1] is None for g in walk(f))


def has_past(f):
    return any(g[0] in PAST_UN + PAST_BIN + EVENTS for g in walk(f))


def has_stateful(f):
    return any(g[0] in STATEFUL for g in walk(f))


def horizon(f):
    """Largest total of upper bounds (next = 1) along a chain of nested future operators."""
    o = f[0]
    if is_leaf(f):
        return 0
    h = max(horizon(k) for k in kids(f))
    if o in ('next', 's_next'):
        return h + 1
    if o in ('eventually', 'always', 'until', 'unless'):
        if f[1] is None:
            return math.inf
        return h + f[1][1]
    return h


def past_reach(f):
    """How far back a formula may look (inf for unbounded past)."""
    o = f[0]
    if is_leaf(f):
        return 0
    h = max(past_reach(k) for k in kids(f))
    if o in ('prev', 's_prev', 'rise', 'fall'):
        return h + 1
    if o in ('once', 'historically', 'since'):
        if f[1] is None:
            return math.inf
        return h + f[1][1]
    return h


def duplicate_stateful_subterms(f):
    """True when two distinct positions carry the same sub-formula and it contains a stateful op."""
    seen = {}
    for g in walk(f):
        if not is_leaf(g) and has_stateful(g):
            seen[g] = seen.get(g, 0) + 1
    return any(c > 1 for c in seen.values())


def map_formula(f, fn):
    """Bottom-up rewrite."""
    if is_leaf(f):
        return fn(f)
    return fn((f[0], f[1]) + tuple(map_formula(k, fn) for k in kids(f)))


def subst_var(f, name, g):
    return map_formula(f, lambda h: g if (h[0] == 'var' and h[2] == name) else h)


# ---------------------------------------------------------------------------------------
# printing

def num(v):
    """Print a non-negative number as a literal the lexer accepts (no sign, no exponent)."""
    if isinstance(v, Fraction):
        if v.denominator == 1:
            return str(v.numerator)
        v = float(v)
    if isinstance(v, int):
        if v < 0:
            raise ValueError('negative literal')
        return str(v)
    if v < 0 or v != v or v in (math.inf,):
        raise ValueError('unprintable literal %r' % (v,))
    if v == int(v) and abs(v) < 1e15:
        return str(int(v))
    s = repr(float(v))
    if 'e' in s or 'E' in s:
        s = '%.12f' % v
        s = s.rstrip('0')
    return s


def default_ivl(i):
    return '[%s,%s]' % (num(i[0]), num(i[1]))


def to_text(f, ivl_printer=default_ivl, kw=None):
    """Canonical, fully parenthesised keyword form."""
    kw = kw or KW
    o = f[0]
    if o == 'var':
        return f[2]
    if o == 'const':
        if f[2] < 0:
            return '(0 - %s)' % num(-f[2])
        return num(f[2])
    ks = [to_text(k, ivl_printer, kw) for k in kids(f)]
    iv = '' if f[1] is None else ivl_printer(f[1])
    if o == 'neg':
        return '(- %s)' % ks[0]
    if o in ('abs', 'sqrt', 'exp', 'ln', 'rise', 'fall'):
        return '%s(%s)' % (o, ks[0])
    if o in ('pow', 'log'):
        return '%s(%s, %s)' % (o, ks[0], ks[1])
    if o in ('not', 'prev', 's_prev', 'next', 's_next'):
        return '(%s %s)' % (kw[o], ks[0])
    if o in ('once', 'historically', 'eventually', 'always'):
        return '(%s%s %s)' % (kw[o], iv, ks[0])
    if o in BINARY:
        return '(%s %s%s %s)' % (ks[0], kw[o], iv, ks[1])
    raise ValueError('unknown op %r' % (o,))


# ---------------------------------------------------------------------------------------
# generation

DYADIC = [i / 8.0 for i in range(-64, 65)]
SMALL = [-3.0, -2.0, -1.5, -1.0, -0.5, 0.0, 0.25, 0.5, 1.0, 1.5, 2.0, 2.5, 3.0, 4.0]


class GenCfg(object):
    """Knobs of the formula generator."""

    def __init__(self, **kw):
        self.vars = ['x', 'y']
        self.max_depth = 3
        self.past = True
        self.future = True
        self.unbounded_future = True
        self.unbounded_past = True
        self.timed = True
        self.prevnext = True       # prev/next/s_prev/s_next
        self.events = True         # rise/fall
        self.since_until = True
        self.unless = False
        self.iffxor = True
        self.eqneq = True
        self.arith = True          # + - * abs inside predicates
        self.transcend = False     # exp sqrt pow ln log
        self.negate = True         # unary minus
        self.div = True
        self.untyped = 0.0         # probability of breaking the term/phi typing at a node
        self.term_temporal = 0.0   # probability of a prev/next of a term inside arithmetic
        self.max_bound = 6
        self.bound_step = 1        # interval end points are multiples of this
        self.dup = 0.0             # probability of re-using an already generated sub-formula
        self.timed_since_until = True
        self.const_pred = 0.05     # probability of a predicate over constants only
        self.wide = 0.0            # probability that a bounded once/historically/eventually/always gets a window of 33..200 samples
        self.__dict__.update(kw)


def gen_interval(rng, cfg):
    r = rng.random()
    mb = cfg.max_bound
    if r < 0.12:
        a = b = 0
    elif r < 0.25:
        a = b = rng.randint(0, mb)
    elif r < 0.6:
        a, b = 0, rng.randint(0, mb)
    else:
        a = rng.randint(0, mb)
        b = rng.randint(a, mb)
    return (a * cfg.bound_step, b * cfg.bound_step)


def widen(rng, cfg, o, iv):
    """Wide windows (64..200 samples, discrete time): what an implementation that treats long windows differently
    from short ones (block-wise extrema, candidate deques, prototypes) would meet."""
    if iv is None or not cfg.wide or cfg.bound_step != 1 or o not in ('once', 'historically', 'eventually', 'always'):
        return iv
    if rng.random() >= cfg.wide:
        return iv
    a = rng.choice([0, 0, 0, 1, 2, 10, 70])
    return (a, a + wide_width(rng))


def wide_width(rng):
    """Width of a wide window: the powers of two and their neighbours (where an implementation would put a threshold
    between its short-window and its long-window code), and anything in between."""
    if rng.random() < 0.3:
        return rng.randint(13, 200)
    return rng.choice([15, 16, 17, 18, 20, 24, 31, 32, 33, 40, 47, 48, 49, 50, 63, 64, 65, 80, 100, 127, 128, 129, 200])


def gen_term(rng, cfg, d, pool=None):
    r = rng.random()
    if cfg.untyped and d > 0 and rng.random() < cfg.untyped:
        return gen_phi(rng, cfg, d - 1, pool)
    if cfg.term_temporal and cfg.prevnext and rng.random() < cfg.term_temporal:
        # a delayed copy of a term inside the arithmetic of a predicate: abs(x - (prev x)) <= 1
        ops = (['prev', 's_prev'] if cfg.past else []) + (['next', 's_next'] if cfg.future else [])
        if ops:
            return N(rng.choice(ops), gen_term(rng, cfg, max(d - 1, 0), pool))
    if d <= 0 or r < 0.45 or not cfg.arith:
        if rng.random() < 0.75:
            return V(rng.choice(cfg.vars))
        return C(abs(rng.choice(SMALL)))
    choices = ['add', 'sub', 'mul', 'abs']
    if cfg.negate:
        choices.append('neg')
    if cfg.div:
        choices.append('div')
    if cfg.transcend:
        choices += ['exp', 'sqrt', 'pow', 'ln', 'log']
    o = rng.choice(choices)
    if o in ('add', 'sub', 'mul'):
        return N(o, gen_term(rng, cfg, d - 1, pool), gen_term(rng, cfg, d - 1, pool))
    if o in ('abs', 'neg'):
        return N(o, gen_term(rng, cfg, d - 1, pool))
    if o == 'div':
        if rng.random() < 0.35:
            # a signal-valued divisor kept away from 0: |t| + 1 (the dividend may be a constant: 2 / (|x| + 1))
            num = C(rng.choice([1.0, 2.0])) if rng.random() < 0.3 else gen_term(rng, cfg, d - 1, pool)
            return N('div', num, N('add', N('abs', gen_term(rng, cfg, max(d - 2, 0), pool)), C(1.0)))
        return N('div', gen_term(rng, cfg, d - 1, pool), C(rng.choice([0.5, 1.0, 2.0, 4.0])))
    safe = N('add', N('abs', gen_term(rng, cfg, d - 1, pool)), C(1.0))     # >= 1
    if o == 'exp':
        # keep the argument small: exp(x/8) never overflows on dyadic data in [-8, 8]
        return N('exp', N('div', gen_term(rng, cfg, max(d - 2, 0), pool), C(8.0)))
    if o == 'sqrt' and rng.random() < 0.35:
        return N('sqrt', N('abs', gen_term(rng, cfg, max(d - 1, 0), pool)))      # >= 0: the root of exactly 0 included
    if o in ('sqrt', 'ln'):
        return N(o, safe)
    if o == 'pow':
        if rng.random() < 0.4:
            # a signal-valued exponent in [-2, 2] (the base is >= 1): both operands of the operation carry samples
            return N('pow', safe, N('div', V(rng.choice(cfg.vars)), C(4.0)))
        return N('pow', safe, C(rng.choice([0.0, 1.0, 2.0, 0.5])))
    if o == 'log':
        if rng.random() < 0.4:
            return N('log', safe, N('add', N('abs', V(rng.choice(cfg.vars))), C(2.0)))      # base >= 2
        return N('log', safe, C(rng.choice([2.0, 4.0, 0.5])))
    raise AssertionError(o)


def gen_pred(rng, cfg, d, pool=None):
    cmps = ['leq', 'lt', 'geq', 'gt']
    if cfg.eqneq:
        cmps += ['eq', 'neq']
    c = rng.choice(cmps)
    if rng.random() < cfg.const_pred:
        return N(c, C(abs(rng.choice(SMALL))), C(abs(rng.choice(SMALL))))
    left = gen_term(rng, cfg, d, pool)
    if rng.random() < 0.6:
        right = C(abs(rng.choice(SMALL)))
    else:
        right = gen_term(rng, cfg, d, pool)
    if rng.random() < 0.15:
        left, right = right, left
    return N(c, left, right)


def gen_phi(rng, cfg, d, pool=None):
    """Random formula of nesting depth <= d at the Boolean/temporal level."""
    if pool is not None and pool and cfg.dup and rng.random() < cfg.dup:
        return rng.choice(pool)
    if cfg.untyped and rng.random() < cfg.untyped:
        f = gen_term(rng, cfg, min(d, 1), pool)
        return f
    if d <= 0 or rng.random() < 0.18:
        f = gen_pred(rng, cfg, min(max(d, 0), 2) if cfg.arith else 0, pool)
        if pool is not None:
            pool.append(f)
        return f
    groups = [('bool', 3.0)]
    if cfg.past:
        groups.append(('past', 3.0))
    if cfg.future:
        groups.append(('future', 3.0))
    if cfg.events:
        groups.append(('event', 0.7))
    tot = sum(w for _, w in groups)
    r = rng.random() * tot
    for g, w in groups:
        if r < w:
            break
        r -= w
    sub = lambda: gen_phi(rng, cfg, d - 1, pool)
    if g == 'bool':
        bops = ['not', 'and', 'or', 'implies']
        if cfg.iffxor:
            bops += ['iff', 'xor']
        o = rng.choice(bops)
        f = N(o, sub()) if o == 'not' else N(o, sub(), sub())
    elif g == 'event':
        f = N(rng.choice(EVENTS), sub())
    elif g == 'past':
        cand = ['once', 'historically']
        if cfg.since_until:
            cand.append('since')
        if cfg.prevnext:
            cand += ['prev', 's_prev']
        o = rng.choice(cand)
        if o in ('prev', 's_prev'):
            f = N(o, sub())
        else:
            timed = cfg.timed and (rng.random() < 0.6 or not cfg.unbounded_past)
            if o == 'since' and not cfg.timed_since_until:
                timed = False
                if not cfg.unbounded_past:
                    o = rng.choice(['once', 'historically'])
                    timed = True
            iv = gen_interval(rng, cfg) if timed else None
            iv = widen(rng, cfg, o, iv)
            f = N(o, sub(), sub(), ivl=iv) if o == 'since' else N(o, sub(), ivl=iv)
    else:
        cand = ['eventually', 'always']
        if cfg.since_until:
            cand.append('until')
            if cfg.unless and cfg.timed:
                cand.append('unless')
        if cfg.prevnext:
            cand += ['next', 's_next']
        o = rng.choice(cand)
        if o in ('next', 's_next'):
            f = N(o, sub())
        else:
            timed = cfg.timed and (rng.random() < 0.6 or not cfg.unbounded_future or o == 'unless')
            if o == 'until' and not cfg.timed_since_until:
                timed = False
                if not cfg.unbounded_future:
                    o = rng.choice(['eventually', 'always'])
                    timed = True
            if not timed and not cfg.unbounded_future:
                timed = True
            iv = gen_interval(rng, cfg) if timed else None
            iv = widen(rng, cfg, o, iv)
            f = N(o, sub(), sub(), ivl=iv) if o in ('until', 'unless') else N(o, sub(), ivl=iv)
    if pool is not None:
        pool.append(f)
    return f


def gen_formula(rng, cfg, depth=None):
    d = cfg.max_depth if depth is None else depth
    d = rng.randint(1, d) if d >= 1 else 0
    pool = [] if cfg.dup else None
    return gen_phi(rng, cfg, d, pool)


def with_near_twin(rng, f):
    """(f1 o f2) where f1, f2 are f with one constant moved by different amounts below 1e-6: two sub-formulas
    that differ only in the seventh decimal of a constant are different sub-formulas."""
    consts = sorted(set(g for g in walk(f) if g[0] == 'const' and g[2] >= 0), key=repr)
    if not consts:
        return f
    c = rng.choice(consts)
    d1, d2 = rng.sample(rng.choice([[0.0, 1e-7, 2e-7, 4e-7], [0.0, 1e-7, 2e-7, 4e-7], [0.0, 1e-11, 2e-11, 4e-11], [0.0, 1e-13, 3e-13, 5e-13]]), 2)
    f1 = map_formula(f, lambda h: C(c[2] + d1) if h == c else h)
    f2 = map_formula(f, lambda h: C(c[2] + d2) if h == c else h)
    return N(rng.choice(['and', 'or', 'implies']), f1, f2)


def gen_values(rng, n, style=None):
    style = style or rng.choice(['dyadic', 'small', 'small', 'steps', 'spiky', 'tiny'])
    if style == 'tiny':
        # four values: ties everywhere (equal maxima/minima inside one window, separated by other values)
        pool = rng.choice([[0.0, 1.0, 3.0, 5.0], [-1.0, 0.0, 1.0, 2.0], [0.5, 1.0, 1.5, 2.0]])
        return [rng.choice(pool) for _ in range(n)]
    if style == 'dyadic':
        return [rng.choice(DYADIC) for _ in range(n)]
    if style == 'small':
        return [rng.choice(SMALL) for _ in range(n)]
    if style == 'steps':
        out, v = [], rng.choice(SMALL)
        for _ in range(n):
            if rng.random() < 0.3:
                v = rng.choice(SMALL)
            out.append(v)
        return out
    out = [0.0] * n
    for i in range(n):
        if rng.random() < 0.25:
            out[i] = rng.choice(DYADIC)
    return out


def gen_trace(rng, names, n):
    return dict((v, gen_values(rng, n)) for v in names)


# ---------------------------------------------------------------------------------------
# shrinking

def formula_shrinks(f):
    """Smaller candidate formulas (one step)."""
    if is_leaf(f):
        if f[0] == 'const' and f[2] not in (0.0, 1.0):
            yield C(1.0)
        return
    for k in kids(f):
        yield k
    if f[1] is not None:
        a, b = f[1]
        for cand in ((0, b), (a, a), (0, 0), (max(a - 1, 0), max(b - 1, 0)), (a, max(a, b - 1))):
            if cand != (a, b) and cand[0] <= cand[1]:
                yield (f[0], cand) + f[2:]
        if f[0] != 'unless':
            yield (f[0], None) + f[2:]
    ks = kids(f)
    for i, k in enumerate(ks):
        for s in formula_shrinks(k):
            yield (f[0], f[1]) + ks[:i] + (s,) + ks[i + 1:]


def shrink(case, fails, budget=300, shrink_data=True):
    """Greedy shrink of ``case`` = dict(formula=..., data={var: [..]}, ...) under ``fails(case)``.

    ``fails`` must return a truthy value when the (smaller) case still shows the same problem.
    Exceptions inside ``fails`` count as "does not fail".
    """
    def ok(c):
        try:
            return bool(fails(c))
        except Exception:
            return False

    cur = dict(case)
    steps = 0
    improved = True
    while improved and steps < budget:
        improved = False
        for cand in formula_shrinks(cur['formula']):
            steps += 1
            if steps > budget:
                break
            c = dict(cur)
            c['formula'] = cand
            used = variables(cand)
            if 'data' in c and isinstance(c['data'], dict):
                c['data'] = dict((k, v) for k, v in c['data'].items() if k in used or k == 'time') or c['data']
            if ok(c):
                cur = c
                improved = True
                break
        if improved:
            continue
        data = cur.get('data')
        if shrink_data and isinstance(data, dict) and data:
            n = len(next(iter(data.values())))
            for cut in (n // 2, n - 1):
                if 1 <= cut < n:
                    steps += 1
                    c = dict(cur)
                    c['data'] = dict((k, v[:cut]) for k, v in data.items())
                    if ok(c):
                        cur = c
                        improved = True
                        break
            if improved:
                continue
            for k in sorted(data):
                if k == 'time':
                    continue
                for i, v in enumerate(data[k]):
                    if v not in (0.0, 1.0) and steps < budget:
                        for nv in (0.0, 1.0):
                            steps += 1
                            c = dict(cur)
                            nd = dict(data)
                            nd[k] = data[k][:i] + [nv] + data[k][i + 1:]
                            c['data'] = nd
                            if ok(c):
                                cur = c
                                data = nd
                                improved = True
                                break
    return cur


def to_jsonable(f):
    if is_leaf(f):
        return [f[0], None, f[2]]
    return [f[0], list(f[1]) if f[1] is not None else None] + [to_jsonable(k) for k in kids(f)]


def from_jsonable(j):
    if j[0] in ('var', 'const'):
        return (j[0], None, j[2])
    return (j[0], tuple(j[1]) if j[1] is not None else None) + tuple(from_jsonable(k) for k in j[2:])


# ---------------------------------------------------------------------------------------
# dense time workloads

def dense_cfg(rng, **kw):
    nv = rng.choice([1, 2, 2, 3])
    c = GenCfg(vars=list(VAR_POOL[:nv]), max_depth=rng.choice([1, 2, 2, 3, 3, 4]), prevnext=False, events=False,
               max_bound=rng.choice([4, 8, 12]), bound_step=Fraction(1, 4), transcend=rng.random() < 0.15)
    c.__dict__.update(kw)
    return c


def gen_signal(rng, n=None, start=None, step=Fraction(1, 4), aligned_to=None):
    """Piecewise-constant signal as [(t, v)] with increasing stamps (multiples of ``step``)."""
    n = n or rng.choice([1, 2, 3, 4, 5, 6, 8])
    if start is None:
        start = Fraction(0) if rng.random() < 0.65 else step * rng.randint(1, 14)
    t, out = Fraction(start), []
    for _ in range(n):
        out.append((t, rng.choice(SMALL)))
        t = t + step * rng.choice([1, 1, 2, 3, 4, 4, 6, 10])
    return out


def gen_signals(rng, names):
    r = rng.random()
    if r < 0.3:      # aligned: same stamps for every variable
        base = gen_signal(rng)
        return dict((k, [(t, rng.choice(SMALL)) for (t, _) in base]) for k in names)
    if r < 0.45:     # same start, independent break-points
        st = Fraction(0) if rng.random() < 0.7 else Fraction(rng.randint(1, 14), 4)
        return dict((k, gen_signal(rng, start=st)) for k in names)
    return dict((k, gen_signal(rng)) for k in names)


# ---------------------------------------------------------------------------------------
# modular specifications (C09, C12)

def decompose(rng, f, k, names=('sa', 'sb', 'sc', 'sd')):
    """Split ``f`` into a top formula and up to k named sub-specifications (definition order; a
    definition may reference earlier names; every occurrence of a chosen sub-formula is replaced)."""
    top, defs = f, []
    for i in range(k):
        cands = [g for g in walk(top) if not is_leaf(g) and g is not top and g != top]
        if not cands:
            break
        g = rng.choice(cands)
        nm = names[i]
        top = map_formula(top, lambda h, g=g, nm=nm: V(nm) if h == g else h)
        defs.append((nm, g))
    return top, defs


def inline(top, defs):
    f = top
    for nm, g in reversed(defs):
        f = subst_var(f, nm, g)
    return f


def lift_constants(rng, f, p=0.5, names=('k1', 'k2')):
    """Replace up to two distinct literal constants by declared constants. Returns (formula, [(name, value)])."""
    consts = []
    for g in walk(f):
        if g[0] == 'const' and g[2] not in [c for _, c in consts]:
            consts.append((None, g[2]))
    rng.shuffle(consts)
    chosen = [(names[i], v) for i, (_, v) in enumerate(consts[:2]) if rng.random() < p]
    for nm, val in chosen:
        f = map_formula(f, lambda h, nm=nm, val=val: V(nm) if (h[0] == 'const' and h[2] == val) else h)
    return f, chosen


# ---------------------------------------------------------------------------------------
# spelling variants (C15)

# binding strength transcribed from the order of the alternatives of `expression` in StlParser.g4
# (earlier alternative = binds tighter; every binary alternative is left-associative)
LEVEL = {'neg': 21, 'mul': 20, 'div': 20, 'add': 19, 'sub': 19,
         'leq': 18, 'lt': 18, 'geq': 18, 'gt': 18, 'eq': 18, 'neq': 18,
         'not': 17, 'always': 16, 'eventually': 15, 'historically': 14, 'once': 13,
         'prev': 12, 'next': 11, 's_prev': 10, 's_next': 9,
         'until': 8, 'unless': 7, 'since': 6, 'and': 5, 'or': 4, 'implies': 3, 'iff': 2, 'xor': 1}
PREFIX = ('neg', 'not', 'always', 'eventually', 'historically', 'once', 'prev', 'next', 's_prev', 's_next')
CALLS = ('abs', 'sqrt', 'exp', 'ln', 'rise', 'fall', 'pow', 'log')


class Style(object):
    """How a variant is spelled."""

    def __init__(self, alias=0.0, colon=0.0, extra_parens=0.0, minimal=False, rng=None):
        self.alias, self.colon, self.extra_parens, self.minimal, self.rng = alias, colon, extra_parens, minimal, rng

    def kw(self, o):
        if o in ALIAS and self.rng is not None and self.rng.random() < self.alias:
            return ALIAS[o]
        return KW[o]

    def ivl(self, i):
        sep = ':' if (self.rng is not None and self.rng.random() < self.colon) else ','
        return '[%s%s%s]' % (num(i[0]), sep, num(i[1]))

    def wrap(self, s):
        if self.rng is not None and self.rng.random() < self.extra_parens:
            return '(%s)' % s
        return s


def to_variant(f, st):
    """Print ``f`` in style ``st``; returns text that must parse to the same tree as to_text(f)."""
    return _tv(f, st)[0]


def _atom(f):
    return is_leaf(f) and not (f[0] == 'const' and f[2] < 0) or f[0] in CALLS


def _paren(txt):
    return '(%s)' % txt


def _tv(f, st):
    """-> (text, kind) with kind in {'atom', 'prefix', 'binary'} describing the outermost shape."""
    o = f[0]
    if o == 'var':
        return st.wrap(f[2]), 'atom'
    if o == 'const':
        if f[2] < 0:
            return '(0 - %s)' % num(-f[2]), 'atom'
        return st.wrap(num(f[2])), 'atom'
    if o in CALLS:
        args = ', '.join(_tv(k, st)[0] for k in kids(f))
        return st.wrap('%s(%s)' % (o, args)), 'atom'
    iv = '' if f[1] is None else st.ivl(f[1])
    if not st.minimal:
        ks = [_paren(_tv(k, st)[0]) if not _atom(k) else _tv(k, st)[0] for k in kids(f)]
        if o in PREFIX:
            return st.wrap('(%s%s %s)' % (st.kw(o), iv, ks[0])), 'atom'
        return st.wrap('(%s %s%s %s)' % (ks[0], st.kw(o), iv, ks[1])), 'atom'
    L = LEVEL[o]
    if o in PREFIX:
        k = f[2]
        t, kind = _tv(k, st)
        if kind == 'binary' and LEVEL[k[0]] < L:
            t = _paren(t)
        return st.wrap('%s%s %s' % (st.kw(o), iv, t)) if False else '%s%s %s' % (st.kw(o), iv, t), 'prefix'
    l, r = f[2], f[3]
    lt, lk = _tv(l, st)
    rt, rk = _tv(r, st)
    if lk == 'binary' and LEVEL[l[0]] < L:
        lt = _paren(lt)
    elif lk == 'prefix' and not LEVEL[l[0]] > L:
        lt = _paren(lt)
    elif lk == 'prefix' and _prefix_tail_absorbs(l, L):
        lt = _paren(lt)
    if rk == 'binary' and LEVEL[r[0]] <= L:
        rt = _paren(rt)
    elif rk == 'prefix':
        rt = _paren(rt)
    return '%s %s%s %s' % (lt, st.kw(o), iv, rt), 'binary'


def _prefix_tail_absorbs(l, L):
    """A prefix operator printed without parentheses as a *left* operand: 'always x and y' is
    '(always x) and y' only if no prefix operator along its right spine binds looser than the
    binary operator that follows."""
    g = l
    while g[0] in PREFIX:
        if LEVEL[g[0]] <= L:
            return True
        g = g[2]
    # the innermost operand is an atom or a binary printed (with parentheses if needed) at the level of the
    # last prefix operator; a trailing binary operator of level L then attaches outside iff L < that level
    return False


# ---------------------------------------------------------------------------------------
# unit-suffix spellings of the same durations (default unit s, sampling period 1 s)

_UNIT_NS = {'s': 10 ** 9, 'ms': 10 ** 6, 'us': 10 ** 3, 'ns': 1}


def _dur(seconds, unit):
    q = Fraction(seconds) * _UNIT_NS['s'] / _UNIT_NS[unit]
    if q.denominator != 1:
        raise ValueError('not printable')
    return str(q.numerator)


def unit_text(f, rng, mode=None):
    """Text of ``f`` whose bounds (given in seconds) are written with unit suffixes: both ends (possibly
    different units), the same suffix, or a suffix on one end only (which then applies to both).  The
    durations are unchanged, so every oracle for the canonical text applies."""
    def pr(i):
        a, b = i
        m = mode or rng.choice(['both', 'same', 'end-only', 'begin-only'])
        ua, ub = rng.choice(['s', 'ms', 'us']), rng.choice(['s', 'ms', 'us'])
        if Fraction(a).denominator != 1 or Fraction(b).denominator != 1:
            ua = rng.choice(['ms', 'us'])
            ub = rng.choice(['ms', 'us'])
        if m == 'both':
            return '[%s%s,%s%s]' % (_dur(a, ua), ua, _dur(b, ub), ub)
        if m == 'same':
            return '[%s%s:%s%s]' % (_dur(a, ua), ua, _dur(b, ua), ua)
        if m == 'end-only':
            return '[%s,%s%s]' % (_dur(a, ub), _dur(b, ub), ub)
        return '[%s%s,%s]' % (_dur(a, ua), ua, _dur(b, ua))
    return to_text(f, ivl_printer=pr)
