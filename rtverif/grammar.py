"""Independent recogniser of the rtamt specification language (C14).

Hand transcription of LtlLexer.g4 / LtlParser.g4 / StlParser.g4: a maximal-munch lexer and an
Earley recogniser over the (ambiguous, precedence-free) grammar.  Recognition only: a text is
*derivable* iff its token sequence is in the language of ``specification_file``.  Used in one
direction only: a text this module proves NOT derivable must not be accepted by parse().
"""
import re

# --- lexer ---------------------------------------------------------------------------------

KEYWORDS = [
    ('ABS', 'abs'), ('SQRT', 'sqrt'), ('EXP', 'exp'), ('POW', 'pow'), ('LOG', 'log'), ('LN', 'ln'),
    ('SEC', 's'), ('MSEC', 'ms'), ('USEC', 'us'), ('NSEC', 'ns'), ('PSEC', 'ps'),
    ('ROS_Topic', 'topic'), ('Import', 'import'), ('Input', 'input'), ('Output', 'output'),
    ('Internal', 'internal'), ('Constant', 'const'), ('DomainTypeReal', 'real'), ('DomainTypeFloat', 'float'),
    ('DomainTypeLong', 'long'), ('DomainTypeComplex', 'complex'), ('DomainTypeInt', 'int'),
    ('DomainTypeBool', 'bool'), ('Assertion', 'assertion'), ('Specification', 'specification'), ('From', 'from'),
    ('NotOperator', 'not'), ('NotOperator', '!'), ('OrOperator', 'or'), ('OrOperator', '|'),
    ('AndOperator', 'and'), ('AndOperator', '&'), ('IffOperator', 'iff'), ('IffOperator', '<->'),
    ('ImpliesOperator', 'implies'), ('ImpliesOperator', '->'), ('XorOperator', 'xor'),
    ('RiseOperator', 'rise'), ('FallOperator', 'fall'),
    ('AlwaysOperator', 'always'), ('AlwaysOperator', 'G'), ('EventuallyOperator', 'eventually'),
    ('EventuallyOperator', 'F'), ('UntilOperator', 'until'), ('UntilOperator', 'U'),
    ('UnlessOperator', 'unless'), ('UnlessOperator', 'W'), ('HistoricallyOperator', 'historically'),
    ('HistoricallyOperator', 'H'), ('OnceOperator', 'once'), ('OnceOperator', 'O'),
    ('SinceOperator', 'since'), ('SinceOperator', 'S'), ('NextOperator', 'next'), ('NextOperator', 'X'),
    ('PreviousOperator', 'prev'), ('PreviousOperator', 'Y'), ('StrongNextOperator', 's_next'),
    ('StrongNextOperator', 'sX'), ('StrongPreviousOperator', 's_prev'), ('StrongPreviousOperator', 'sY'),
    ('EqualOperator', '=='), ('NotEqualOperator', '!=='), ('GreaterOrEqualOperator', '>='),
    ('LesserOrEqualOperator', '<='), ('GreaterOperator', '>'), ('LesserOperator', '<'), ('EQUAL', '='),
    ('BooleanLiteral', 'true'), ('BooleanLiteral', 'TRUE'), ('BooleanLiteral', 'false'), ('BooleanLiteral', 'FALSE'),
]
PUNCT = [('MINUS', '-'), ('PLUS', '+'), ('TIMES', '*'), ('DIVIDE', '/'), ('LPAREN', '('), ('RPAREN', ')'),
         ('LBRACE', '{'), ('RBRACE', '}'), ('LBRACK', '['), ('RBRACK', ']'), ('SEMICOLON', ';'), ('COLON', ':'),
         ('COMMA', ','), ('DOT', '.'), ('AT', '@')]

_DIGITS = r'[0-9](?:[0-9_]*[0-9])?'
_DEC = r'(?:0|[1-9](?:_+%s|(?:%s)?))' % (_DIGITS, _DIGITS)
_HEX = r'0[xX][0-9a-fA-F](?:[0-9a-fA-F_]*[0-9a-fA-F])?'
_BIN = r'0[bB][01](?:[01_]*[01])?'
_EXPO = r'[eE][+-]?[0-9]+'
REGEX = [
    ('IntegerLiteral', re.compile(r'(?:%s|%s|%s)' % (_HEX, _BIN, _DEC))),
    ('RealLiteral', re.compile(r'(?:%s\.(?:%s)?(?:%s)?|\.%s(?:%s)?|%s%s)' % (_DIGITS, _DIGITS, _EXPO, _DIGITS, _EXPO,
                                                                             _DIGITS, _EXPO))),
    ('Identifier', re.compile(r'[A-Za-z_$][A-Za-z_$0-9./]*')),
    ('SKIP', re.compile(r'\n')),
    ('SKIP', re.compile(r'[ \t\r\x0c]+')),
    ('SKIP', re.compile(r'/\*.*?\*/', re.S)),
    ('SKIP', re.compile(r'//[^\r\n]*')),
]
# order of the rules in the .g4 file decides ties of equal length: punctuation, keywords, literals, Identifier
_FIXED = PUNCT + KEYWORDS


class LexError(Exception):
    pass


def lex(text):
    """-> list of (type, text). Raises LexError on a character no token rule can consume."""
    pos, out, n = 0, [], len(text)
    while pos < n:
        best_len, best_type = 0, None
        for typ, lit in _FIXED:
            if len(lit) > best_len and text.startswith(lit, pos):
                best_len, best_type = len(lit), typ
        for typ, rx in REGEX:
            m = rx.match(text, pos)
            if m and m.end() - pos > best_len:
                best_len, best_type = m.end() - pos, typ
        if best_type is None:
            raise LexError('illegal character %r at %d' % (text[pos], pos))
        if best_type != 'SKIP':
            out.append((best_type, text[pos:pos + best_len]))
        pos += best_len
    return out


# --- grammar ---------------------------------------------------------------------------------

def _g(stl=True):
    G = {}

    def add(lhs, *alts):
        G.setdefault(lhs, []).extend([a.split() for a in alts])

    add('file', 'specification')
    add('specification', 'spec_opt imports decls assertions')
    add('spec_opt', '', 'Specification Identifier')
    add('imports', '', 'imports From Identifier Import Identifier')
    add('decls', '', 'decls declaration', 'decls annotation')
    add('assertions', 'assertion', 'assertions assertion')
    add('assertion', 'expression SEMICOLON', 'Identifier EQUAL expression SEMICOLON')
    add('declaration', 'variableDeclaration', 'constantDeclaration')
    add('annotation', 'AT ROS_Topic LPAREN Identifier COMMA Identifier RPAREN')
    add('variableDeclaration', 'ioType_opt domainType Identifier assignment_opt')
    add('constantDeclaration', 'Constant domainType Identifier EQUAL literal')
    add('assignment_opt', '', 'EQUAL literal', 'EQUAL expression')
    add('domainType', 'DomainTypeFloat', 'DomainTypeInt', 'DomainTypeLong', 'DomainTypeComplex', 'Identifier')
    add('ioType_opt', '', 'Input', 'Output')
    add('literal', 'IntegerLiteral', 'RealLiteral')
    add('multdivOp', 'TIMES', 'DIVIDE')
    add('addsubOp', 'PLUS', 'MINUS')
    add('comparisonOp', 'LesserOrEqualOperator', 'GreaterOrEqualOperator', 'LesserOperator', 'GreaterOperator',
        'EqualOperator', 'NotEqualOperator')
    iv = 'interval_opt ' if stl else ''
    add('expression',
        'LPAREN expression RPAREN', 'MINUS expression',
        'ABS LPAREN expression RPAREN', 'SQRT LPAREN expression RPAREN', 'EXP LPAREN expression RPAREN',
        'POW LPAREN expression COMMA expression RPAREN', 'LOG LPAREN expression COMMA expression RPAREN',
        'LN LPAREN expression RPAREN',
        'expression multdivOp expression', 'expression addsubOp expression',
        'expression comparisonOp expression', 'NotOperator expression',
        'AlwaysOperator %sexpression' % iv, 'EventuallyOperator %sexpression' % iv,
        'HistoricallyOperator %sexpression' % iv, 'OnceOperator %sexpression' % iv,
        'PreviousOperator expression', 'NextOperator expression', 'StrongPreviousOperator expression',
        'StrongNextOperator expression',
        'expression UntilOperator %sexpression' % iv, 'expression UnlessOperator %sexpression' % iv,
        'expression SinceOperator %sexpression' % iv,
        'expression AndOperator expression', 'expression OrOperator expression',
        'expression ImpliesOperator expression', 'expression IffOperator expression',
        'expression XorOperator expression',
        'RiseOperator LPAREN expression RPAREN', 'FallOperator LPAREN expression RPAREN',
        'Identifier', 'literal')
    if stl:
        add('interval_opt', '', 'interval')
        add('interval', 'LBRACK intervalTime COLON intervalTime RBRACK', 'LBRACK intervalTime COMMA intervalTime RBRACK')
        add('intervalTime', 'literal unit_opt', 'Identifier unit_opt')
        add('unit_opt', '', 'SEC', 'MSEC', 'USEC', 'NSEC')
    return G


GRAMMAR_STL = _g(True)
GRAMMAR_LTL = _g(False)


def earley(tokens, G, start='file'):
    """Plain Earley recogniser (handles empty productions)."""
    n = len(tokens)
    chart = [set() for _ in range(n + 1)]
    order = [[] for _ in range(n + 1)]

    def push(i, item):
        if item not in chart[i]:
            chart[i].add(item)
            order[i].append(item)
    for k, alt in enumerate(G[start]):
        push(0, (start, k, 0, 0))
    nullable = set()
    changed = True
    while changed:
        changed = False
        for lhs, alts in G.items():
            if lhs not in nullable and any(all(s in nullable for s in a) for a in alts):
                nullable.add(lhs)
                changed = True
    for i in range(n + 1):
        j = 0
        while j < len(order[i]):
            lhs, k, dot, origin = order[i][j]
            j += 1
            rhs = G[lhs][k]
            if dot < len(rhs):
                sym = rhs[dot]
                if sym in G:
                    for k2 in range(len(G[sym])):
                        push(i, (sym, k2, 0, i))
                    if sym in nullable:
                        push(i, (lhs, k, dot + 1, origin))
                elif i < n and tokens[i] == sym:
                    push(i + 1, (lhs, k, dot + 1, origin))
            else:
                for (l2, k2, d2, o2) in list(chart[origin]):
                    r2 = G[l2][k2]
                    if d2 < len(r2) and r2[d2] == lhs:
                        push(i, (l2, k2, d2 + 1, o2))
    return any(it[0] == start and it[2] == len(G[start][it[1]]) and it[3] == 0 for it in chart[n])


def derivable(text, stl=True):
    """(True, None) / (False, reason).  The text is the *complete* input of parse()."""
    try:
        toks = lex(text)
    except LexError as e:
        return False, str(e)
    if not earley([t for t, _ in toks], GRAMMAR_STL if stl else GRAMMAR_LTL):
        return False, 'token sequence not in the language'
    return True, None


UNIT_NS = {'s': 10 ** 9, 'ms': 10 ** 6, 'us': 10 ** 3, 'ns': 1}


def interval_problems(text, declared_consts, default_unit='s'):
    """Side conditions the statement puts on intervals, decided on the token stream: literal bounds
    with 0 <= begin <= end (as durations), identifier bounds declared as constants.  Returns a list
    of problems; only literal/literal intervals are compared (a constant's value is not looked up)."""
    from fractions import Fraction
    from decimal import Decimal
    try:
        toks = lex(text)
    except LexError:
        return []
    probs = []
    consts = set(declared_consts)
    for i, (t, s) in enumerate(toks):
        if t == 'Constant' and i + 2 < len(toks) and toks[i + 2][0] == 'Identifier':
            consts.add(toks[i + 2][1])
    i = 0
    while i < len(toks):
        if toks[i][0] == 'LBRACK':
            j = i + 1
            parts = []
            cur = []
            while j < len(toks) and toks[j][0] != 'RBRACK':
                if toks[j][0] in ('COLON', 'COMMA'):
                    parts.append(cur)
                    cur = []
                else:
                    cur.append(toks[j])
                j += 1
            parts.append(cur)
            if j < len(toks) and len(parts) == 2 and all(1 <= len(p) <= 2 for p in parts):
                vals = []
                for p in parts:
                    typ, s = p[0]
                    unit = p[1][1] if len(p) == 2 and p[1][0] in ('SEC', 'MSEC', 'USEC', 'NSEC') else None
                    if typ == 'Identifier':
                        if s not in consts:
                            probs.append('bound constant %s not declared' % s)
                        vals.append((None, unit))
                    elif typ in ('IntegerLiteral', 'RealLiteral'):
                        try:
                            vals.append((Fraction(Decimal(s.replace('_', ''))), unit))
                        except Exception:
                            vals.append((None, unit))
                    else:
                        vals.append((None, unit))
                if len(vals) == 2 and vals[0][0] is not None and vals[1][0] is not None:
                    ub = vals[0][1] or vals[1][1] or default_unit
                    ue = vals[1][1] or vals[0][1] or default_unit
                    if vals[0][0] * UNIT_NS[ub] > vals[1][0] * UNIT_NS[ue]:
                        probs.append('interval with begin > end')
            i = j
        i += 1
    return probs
