"""Harness-side model of what pastify() is *meant* to build (bounded future -> past, shallower
siblings delayed by once[d,d]).  It is not an oracle for C03 — the oracle is the original
formula delayed by h.  It is the *defect model* of the open finding D-past-over-future: a
disagreement with the property is attributed to that finding only if the monitor returned
exactly what this (warm-up ignoring) construction predicts.
"""
from rtverif import lang
from rtverif.lang import N

PAST_STATEFUL = ('prev', 's_prev', 'rise', 'fall', 'once', 'historically', 'since')


def delay(f, d):
    return N('once', f, ivl=(d, d)) if d > 0 else f


def past(f, R):
    """Pastified form of ``f`` when R samples of delay remain to be absorbed."""
    o = f[0]
    if o == 'const':
        return f
    if o == 'var':
        return delay(f, R)
    if o == 'unless':
        a, b = f[1]
        return past(N('or', N('always', f[2], ivl=(0, b)), N('until', f[2], f[3], ivl=(a, b))), R)
    if o in ('eventually', 'always') and f[1] is not None:
        a, b = f[1]
        c = past(f[2], R - b)
        if b - a > 0:
            c = N('once' if o == 'eventually' else 'historically', c, ivl=(0, b - a))
        return c
    if o == 'until' and f[1] is not None:
        a, b = f[1]
        return N('precedes', past(f[2], R - b), past(f[3], R - b), ivl=(a, b))
    if o in ('next', 's_next'):
        return past(f[2], R - 1)
    hn = lang.horizon(f)
    ks = tuple(past(k, hn) for k in lang.kids(f))
    d = R - hn
    if o == 'once' and f[1] is not None:
        return (o, (f[1][0] + max(d, 0), f[1][1] + max(d, 0))) + ks
    return delay((o, f[1]) + ks, d)


def pastified(f):
    return past(f, lang.horizon(f))


def past_over_future(f):
    """Syntactic precondition of D-past-over-future: a stateful past operator (or the delay a
    sibling needs) sits above an operand that still looks into the future."""
    for g in lang.walk(f):
        if g[0] in PAST_STATEFUL and any(lang.horizon(k) > 0 for k in lang.kids(g)):
            return True
    return False
