"""Object-typed ("struct") input variables: the same specification over fields of one imported class.

rtamt lets a variable be declared with an imported class (``spec.import_module(mod, 'Pose')``,
``spec.declare_var('pp', 'Pose')``) and a formula refer to (nested) fields of its samples
(``pp.position.x >= 1``).  ``dress`` rewrites a specification over float variables into one over the fields
of a single struct variable and converts the data accordingly; the semantics is unchanged, so every oracle
that holds for the float spelling holds for the struct spelling.
"""
import re

MODULE = 'rtverif.structs'
CLASS = 'Pose'
VAR = 'pp'
FIELDS = ('position.x', 'confidence', 'position.y', 'velocity.linear.z', 'stamp')


class Vec(object):
    def __init__(self, x=0.0, y=0.0, z=0.0):
        self.x, self.y, self.z = x, y, z


class Twist(object):
    def __init__(self):
        self.linear = Vec()
        self.angular = Vec()


class Pose(object):
    def __init__(self):
        self.position = Vec()
        self.velocity = Twist()
        self.confidence = 0.0
        self.stamp = 0.0


def _set(obj, path, val):
    parts = path.split('.')
    for p in parts[:-1]:
        obj = getattr(obj, p)
    setattr(obj, parts[-1], val)


def mapping(names):
    """{float variable: field path} for up to len(FIELDS) variables (the others stay float variables)."""
    return dict((k, FIELDS[i]) for i, k in enumerate(sorted(names)[:len(FIELDS)]))


def text(txt, mp):
    """Replace every mapped variable name (as a whole identifier, not followed by a field) by VAR.field."""
    for k, fld in mp.items():
        txt = re.sub(r'(?<![\w.])%s(?![\w.])' % re.escape(k), '%s.%s' % (VAR, fld), txt)
    return txt


def sd(base, mp, names):
    """Specification dict: the mapped variables are replaced by the struct variable."""
    out = dict(base)
    out['text'] = text(base['text'], mp)
    if base.get('subspecs'):
        out['subspecs'] = [text(s, mp) for s in base['subspecs']]
    out['vars'] = [v for v in base.get('vars', names) if v not in mp]
    out['struct'] = (MODULE, CLASS, VAR)
    return out


def objects(cols, mp, n):
    """n objects whose mapped fields carry the n values of the mapped columns."""
    objs = []
    for i in range(n):
        o = Pose()
        for k, fld in mp.items():
            _set(o, fld, cols[k][i])
        objs.append(o)
    return objs


def dt_dataset(ds, mp):
    """Discrete offline dataset {'time': .., var: [..]} -> the same with the mapped columns folded into VAR."""
    n = len(ds['time'])
    out = dict((k, v) for k, v in ds.items() if k not in mp)
    out[VAR] = objects(ds, mp, n)
    return out


def dt_inputs(inputs, mp):
    """One discrete online input list [(var, value), ..] -> with the mapped variables folded into VAR."""
    vals = dict(inputs)
    o = Pose()
    for k, fld in mp.items():
        _set(o, fld, vals[k])
    return [(k, v) for k, v in inputs if k not in mp] + [(VAR, o)]


def aligned(signals, mp):
    """Do the mapped dense-time signals share their time stamps (so that they can be folded into one)?"""
    stamps = [tuple(t for t, _ in signals[k]) for k in mp]
    return len(set(stamps)) == 1


def ct_args(args, mp):
    """Dense argument list [[var, [[t, v], ..]], ..] -> with the mapped (aligned) signals folded into VAR."""
    byname = dict((a[0], a[1]) for a in args)
    keys = [k for k in mp if k in byname]
    if not keys:
        return args
    ts = [s[0] for s in byname[keys[0]]]
    objs = []
    for i, t in enumerate(ts):
        o = Pose()
        for k in keys:
            _set(o, mp[k], byname[k][i][1])
        objs.append([t, o])
    return [a for a in args if a[0] not in mp] + [[VAR, objs]]
