"""Adapters for the rtamt monitor kinds + the call/return event recorder.

Every API call made by a workload goes through ``Mon``; it is logged before it is invoked and
after it returns (or raises).  Oracles run on what ``Mon`` returns, i.e. at the client boundary.
"""
import copy
import logging
import os
import sys
import collections

REPO = os.environ.get('RTVERIF_REPO', '/repo')
if REPO not in sys.path:
    sys.path.insert(0, REPO)

logging.disable(logging.CRITICAL)

import rtamt  # noqa: E402
from rtamt.exception.exception import RTAMTException  # noqa: E402

_rt = os.path.realpath(rtamt.__file__)
if not _rt.startswith(os.path.realpath(REPO) + os.sep):
    raise SystemExit('rtverif: rtamt imported from %s, not from %s' % (_rt, REPO))

Semantics = rtamt.Semantics

KINDS = ('dt', 'dt_off', 'dt_on', 'ct', 'ct_off', 'ct_on')
SEMANTICS = {
    'standard': Semantics.STANDARD,
    'output_robustness': Semantics.OUTPUT_ROBUSTNESS,
    'input_robustness': Semantics.INPUT_ROBUSTNESS,
    'output_vacuity': Semantics.OUTPUT_VACUITY,
    'input_vacuity': Semantics.INPUT_VACUITY,
}


class Recorder(object):
    """Bounded event log + counters: what the monitors observed."""

    def __init__(self, keep=40):
        self.counts = collections.Counter()
        self.raised = collections.Counter()
        self.tail = collections.deque(maxlen=keep)
        self.seq = 0
        self.open_call = None

    def call(self, oid, method, args):
        self.seq += 1
        self.counts[method] += 1
        self.open_call = (self.seq, oid, method)
        self.tail.append(('call', self.seq, oid, method, _brief(args)))
        return self.seq

    def ret(self, seq, oid, method, result=None, exc=None):
        self.open_call = None
        if exc is not None:
            self.raised['%s:%s' % (method, type(exc).__name__)] += 1
            self.tail.append(('raise', seq, oid, method, '%s: %s' % (type(exc).__name__, str(exc)[:80])))
        else:
            self.tail.append(('ret', seq, oid, method, _brief(result)))

    def summary(self):
        return {'api_calls': dict(self.counts), 'api_raises': dict(self.raised),
                'events': self.seq, 'last_events': [list(e) for e in list(self.tail)[-8:]]}


def _brief(x, lim=120):
    s = repr(x)
    return s if len(s) <= lim else s[:lim] + '...'


REC = Recorder()


def new_spec(kind, semantics='standard'):
    sem = SEMANTICS[semantics]
    if kind == 'dt':
        return rtamt.StlDiscreteTimeSpecification(semantics=sem)
    if kind == 'ct':
        return rtamt.StlDenseTimeSpecification(semantics=sem)
    if semantics != 'standard':
        # the dedicated offline-only / online-only classes of the interface-aware semantics
        import importlib
        mod = importlib.import_module('rtamt.spec.iastl.%s.specification' % ('discrete_time' if kind.startswith('dt') else 'dense_time'))
        name = 'IAStl%s%sTime%sSpecification' % (''.join(w.capitalize() for w in semantics.replace('-', '_').split('_')),
                                                 'Discrete' if kind.startswith('dt') else 'Dense',
                                                 'Offline' if kind.endswith('off') else 'Online')
        return getattr(mod, name)()
    if kind == 'dt_off':
        return rtamt.StlDiscreteTimeOfflineSpecification()
    if kind == 'dt_on':
        return rtamt.StlDiscreteTimeOnlineSpecification()
    if kind == 'ct_off':
        return rtamt.StlDenseTimeOfflineSpecification()
    if kind == 'ct_on':
        return rtamt.StlDenseTimeOnlineSpecification()
    raise ValueError(kind)


# Object histories.  When a check sets HISTORY to a random.Random for the duration of one case, some of the
# Mon objects created in that case are first put through a *prehistory* that the properties declare harmless:
# an online monitor is fed a few samples and reset() (C10: "for every sequence of updates fed before it"),
# an offline monitor first evaluates other data (its result is a function of the specification and the
# data only).  The prehistory happens just before the first evaluate()/update() of the workload, is not part
# of the recorded history, and is described in LAST_HISTORY so that a witness can mention it.
# Struct inputs.  While a case is being judged (STRUCT is a random.Random), a few of the Mon objects are re-built,
# just before their first evaluate()/update(), over the fields of ONE object-typed input variable
# (rtverif/structs.py: `x >= 1` becomes `pp.position.x >= 1`) and all their data are folded into objects
# accordingly.  The semantics is the same, so are the oracles.  Objects with io types or an interface-aware
# semantics are left alone (two fields of one variable cannot have different io types); dense-time objects
# only when the workload asks for it (sd['structify']: every call passes aligned signals).
STRUCT = None
STRUCT_P = 0.05

# Typed data.  While a case is being judged (TYPED is a random.Random), a few of the Mon objects get every
# integral sample value as a Python int instead of a float (README and suite data are lists of ints), a third of
# those also 0/1 as bool (a Boolean-valued signal; bool is an int in Python) and half of them integral time-stamps as
# ints: numerically the same data, so the semantics and the oracles are unchanged.
TYPED = None
TYPED_P = 0.06

HISTORY = None
HISTORY_P = 0.15
EXPLAIN = True          # explain() inside offline prehistories (C20 switches it off: it reads the explanations)
REPARSE = True          # C20 switches it off: explain() also reports on the assertions of earlier parse() calls
LAST_HISTORY = []


def begin_case(rng, reparse=True, struct=True, typed=True):
    global HISTORY, REPARSE, STRUCT, TYPED, EXPLAIN
    EXPLAIN = reparse
    HISTORY = rng if os.environ.get('RTVERIF_HISTORY', '1') != '0' else None
    STRUCT = rng if (struct and os.environ.get('RTVERIF_STRUCT', '1') != '0') else None
    TYPED = rng if (typed and os.environ.get('RTVERIF_TYPED', '1') != '0') else None
    REPARSE = reparse
    del LAST_HISTORY[:]


def end_case():
    global HISTORY, STRUCT, TYPED
    HISTORY = None
    STRUCT = None
    TYPED = None


def _typed_value(v, bools):
    if isinstance(v, float) and v == v and abs(v) < 2 ** 53 and v.is_integer():
        if bools and v in (0.0, 1.0):
            return bool(v)
        return int(v)
    return v


def typed_args(method, args, mode):
    """The same data with integral values as ints (mode[0]: 0/1 as bools; mode[1]: integral stamps as ints too)."""
    bools, stamps = mode
    if method == 'evaluate' and len(args) == 1 and isinstance(args[0], dict):
        d = args[0]
        return (dict((k, ([_typed_value(x, False) for x in col] if stamps else list(col)) if k == 'time' else
                      [_typed_value(x, bools) for x in col]) for k, col in d.items()),)
    if method == 'update' and len(args) == 2 and isinstance(args[0], (int, float)):
        return (_typed_value(args[0], False) if stamps else args[0],
                [(k, _typed_value(x, bools)) for k, x in args[1]])
    out = []
    for a in args:
        if not (isinstance(a, (list, tuple)) and len(a) == 2 and isinstance(a[1], (list, tuple))):
            return args
        # (dense-time stamps stay floats: with int stamps rtamt computes break-points as exact Fractions, e.g.
        # Fraction(1, 1000), which differ from the float 0.001 of the other execution by 2e-20 - not a difference
        # the properties speak about)
        out.append([a[0], [[x[0], _typed_value(x[1], bools)] for x in a[1]]])
    return tuple(out)


def _shuffled(h, vals):
    vals = list(vals)
    h.shuffle(vals)
    return vals


def build_spec(kind, sd):
    """A configured, not yet parsed specification object."""
    s = new_spec(kind, sd.get('semantics', 'standard'))
    for v in sd.get('vars', ()):
        s.declare_var(v, sd.get('types', {}).get(v, 'float'))
    for (cn, ct, cv) in sd.get('consts', ()):
        s.declare_const(cn, ct, cv)
    for v, t in sorted(sd.get('io', {}).items()):
        s.set_var_io_type(v, t)
    if sd.get('struct'):
        mod, cls, var = sd['struct']
        s.import_module(mod, cls)
        s.declare_var(var, cls)
        if sd.get('struct_io'):
            s.set_var_io_type(var, sd['struct_io'])
    # (the order of the two configuration calls is the caller's business: half of the specifications that have both
    # get the sampling period first and the default unit afterwards)
    period_first = sd.get('unit') is not None and sd.get('period') is not None and len(sd.get('text', '')) % 2 == 1

    def configure_period():
        per = tuple(sd['period'])
        if per[1] == 's' and (len(per) < 3 or per[2] == 0.1) and len(sd.get('text', '')) % 3 == 0:
            # a period in seconds with the default tolerance, written the short way - set_sampling_period(p): the
            # documented defaults are unit 's' and tolerance 0.1, whatever the object was configured with before
            s.set_sampling_period(500, 'ms', 0.25)
            s.set_sampling_period(per[0])
            REC.counts['config:period-with-default-arguments-after-another-configuration'] += 1
        else:
            s.set_sampling_period(*per)
    if period_first:
        configure_period()
    if sd.get('unit') is not None:
        s.unit = sd['unit']
    if sd.get('period') is not None and not period_first:
        configure_period()
    for sub in sd.get('subspecs', ()):
        s.add_sub_spec(sub)
    s.spec = sd['text']
    return s


class Mon(object):
    """One rtamt specification object behind a recording boundary.

    sd keys: text, vars (names), subspecs (texts), consts [(name, type, value-string)],
    unit, period (p, unit, tol), semantics, io {var: 'input'|'output'}, name.
    """
    _next_id = [0]

    def __init__(self, kind, sd, parse=True, pastify=False):
        Mon._next_id[0] += 1
        self.oid = Mon._next_id[0]
        self.kind = kind
        self.sd = sd
        self._hist = None
        self._pastified = False
        self.spec = build_spec(kind, sd)
        hist = None
        if HISTORY is not None and HISTORY.random() < HISTORY_P:
            import random
            hist = random.Random(HISTORY.randrange(1 << 30))
        if hist is not None and parse and REPARSE and sd.get('subspecs') and sd.get('vars') and hist.random() < 0.4 \
                and sd.get('text', '').lstrip().startswith('out ='):
            # the object parsed an earlier version of its output assertion before the sub-specifications were added
            # (a specification that grows: first `out = ...` over the inputs, then helper assertions and a new `out`)
            try:
                spec0 = build_spec(kind, dict(sd, subspecs=[], text='out = (%s >= 1);' % sd['vars'][0]))
                spec0.parse()
                for sub in sd['subspecs']:
                    spec0.add_sub_spec(sub)
                spec0.spec = sd['text']
                self.spec = spec0
                REC.counts['history:earlier-output-assertion-before-the-sub-specifications'] += 1
                LAST_HISTORY.append('object #%d: an earlier output assertion was parsed before the sub-specifications were added' % self.oid)
            except Exception:
                self.spec = build_spec(kind, sd)
        if parse and sd.get('earlier_subspecs') and sd.get('subspecs'):
            # the object was parsed with earlier definitions of its sub-specification names; the final definitions are
            # then added with add_sub_spec() and the (unchanged) main text is parsed again by the regular parse() below
            try:
                spec0 = build_spec(kind, dict(sd, subspecs=sd['earlier_subspecs']))
                spec0.parse()
                for sub in sd['subspecs']:
                    spec0.add_sub_spec(sub)
                self.spec = spec0
                REC.counts['history:sub-specifications-redefined-after-a-parse'] += 1
                LAST_HISTORY.append('object #%d: parsed with earlier definitions %r of its sub-specifications, which were '
                                    'then redefined with add_sub_spec()' % (self.oid, sd['earlier_subspecs']))
            except Exception as e:
                REC.counts['history-raised:redefinition:' + type(e).__name__] += 1
                self.spec = build_spec(kind, sd)
        if hist is not None and hist.random() < 0.3:
            self._refused_declaration(hist)
        if hist is not None and kind.startswith('dt') and hist.random() < 0.3:
            self._refused_configuration(hist)
        if parse and hist is not None and REPARSE and hist.random() < 0.25:
            self._rejected_parse(hist)
        if parse:
            self.parse()
            if hist is not None and REPARSE and hist.random() < 0.3:
                self._reparse()
        if pastify:
            if hist is not None and kind.startswith('dt') and hist.random() < 0.25:
                self._failed_pastify(hist)
            self.pastify()
        self._hist = hist
        # a few online objects get, between their updates, calls that are rejected before any sample is consumed
        # (the data argument is None): a call that fed nothing is not an update
        self._rejected_calls = None
        if HISTORY is not None and HISTORY.random() < 0.08:
            import random
            self._rejected_calls = random.Random(HISTORY.randrange(1 << 30))
        self._struct = None            # None: undecided; False: no; dict: mapping float variable -> field
        self._typed = None
        if sd.get('typed'):
            self._typed = tuple(sd['typed'])     # the workload asks for it (Boolean-valued signals)
        elif TYPED is not None and not sd.get('struct') and TYPED.random() < TYPED_P:
            self._typed = (TYPED.random() < 0.34, TYPED.random() < 0.5)
        self._parsed = parse
        if sd.get('structify'):
            self._struct_wanted = True
        else:
            # (dense time only on request: the workload must guarantee that every call passes aligned signals)
            # (with io types: only the variables of one io class are folded into the object-typed variable, which
            # then carries that io type - two fields of one variable cannot have different io types)
            self._struct_wanted = (STRUCT is not None and parse and kind.startswith('dt')
                                   and not sd.get('struct') and not sd.get('nostruct') and
                                   STRUCT.random() < (STRUCT_P * 2 if sd.get('io') else STRUCT_P))

    def _refused_declaration(self, h):
        """History: before parse(), the caller tries to declare a constant under a name that is already taken (by a
        variable or a constant) and with another value; rtamt refuses that with RTAMTException, and a refused
        declaration leaves no trace.  If it is accepted nothing is claimed: the object is rebuilt.  Never raises."""
        sd = self.sd
        names = [c[0] for c in sd.get('consts', ())] + list(sd.get('vars', ()))
        if not names:
            return
        nm = h.choice(names)
        val = h.choice(['7', '3', '-2.5', '1000', '0'])
        try:
            self.spec.declare_const(nm, 'float', val)
        except RTAMTException:
            REC.counts['history:refused-declaration'] += 1
            LAST_HISTORY.append('object #%d: declare_const(%r, float, %s) was refused before parse()' % (self.oid, nm, val))
            return
        except Exception:
            pass
        REC.counts['history-raised:redeclaration-not-refused'] += 1
        self.spec = build_spec(self.kind, sd)

    def _rejected_parse(self, h):
        """History: before its own text the object was given a text that parse() rejects part-way - an interval whose
        end bound is an undeclared constant (the begin bound is read first), begin > end, an unbalanced parenthesis -
        which declares nothing.  A rejected parse() leaves nothing behind.  Never raises."""
        sd = self.sd
        if sd.get('subspecs') or not sd.get('vars') or 'const' in sd.get('text', ''):
            return
        v = sd['vars'][0]
        bad = h.choice(['((%s >= 1) unless[0,kq9] (%s <= 2))' % (v, v), '(once[3,kq9] (%s >= 1))' % v,
                        '(always[1:kq9 s] (%s >= 1))' % v, '(once[2,1] (%s >= 1))' % v, '((%s >= 1) and (once[0,2] (%s <= 3))' % (v, v),
                        '((%s >= 1) since[2,kq9] (%s <= 3))' % (v, v)])
        if sd.get('text', '').lstrip().startswith('out ='):
            bad = 'out = ' + bad
        own = self.spec.spec
        try:
            self.spec.spec = bad
            self.spec.parse()
        except RTAMTException:
            self.spec.spec = own
            REC.counts['history:rejected-parse'] += 1
            LAST_HISTORY.append('object #%d: parse() of %r was rejected before its own text was parsed' % (self.oid, bad))
            return
        except Exception:
            pass
        REC.counts['history-raised:bad-text-not-rejected'] += 1
        self.spec = build_spec(self.kind, sd)

    def _failed_pastify(self, h):
        """History: a pastify() that fails - under 7 times the sampling period a bound is (in general) not a multiple
        of the period - and is repeated after the period was set back.  If it does not fail the object is rebuilt
        (a pastified specification cannot be un-pastified).  Never raises."""
        real = tuple(self.sd.get('period') or (1, 's', 0.1))
        if not isinstance(real[0], int):
            return
        try:
            self.spec.set_sampling_period(real[0] * 7, real[1], real[2] if len(real) > 2 else 0.1)
            try:
                self.spec.pastify()
                failed = False
            except RTAMTException:
                failed = True
            self.spec.set_sampling_period(*real)
        except Exception:
            failed = False
        if failed:
            REC.counts['history:failed-pastify'] += 1
            LAST_HISTORY.append('object #%d: pastify() failed under the sampling period %s%s before the real one' % (
                self.oid, real[0] * 7, real[1]))
            return
        self.spec = build_spec(self.kind, self.sd)
        self.spec.parse()

    def _refused_configuration(self, h):
        """History: a set_sampling_period() call with a tolerance outside [0, 1], which rtamt refuses with an
        exception; a refused call leaves the configuration as it was.  If it is accepted nothing is claimed: the
        object is rebuilt.  Never raises."""
        real = tuple(self.sd.get('period') or (1, 's', 0.1))
        other = h.choice([(500, 'ms'), (2, 's'), (250, 'ms'), (3, 's'), (1, 'ms')])
        if other[:2] == real[:2]:
            other = (7, 's')
        tol = h.choice([1.5, -0.25, 2.0])
        try:
            self.spec.set_sampling_period(other[0], other[1], tol)
        except Exception:
            REC.counts['history:refused-configuration'] += 1
            LAST_HISTORY.append('object #%d: set_sampling_period(%s, %r, %s) was refused before parse()' % (
                self.oid, other[0], other[1], tol))
            return
        REC.counts['history-raised:configuration-not-refused'] += 1
        self.spec = build_spec(self.kind, self.sd)

    def _structify(self, method, args):
        """First evaluate()/update(): decide on the struct spelling and re-build the object over it."""
        from rtverif import structs
        self._struct = False
        want = self._struct_wanted
        if not want:
            return
        try:
            if method == 'evaluate' and len(args) == 1 and isinstance(args[0], dict):
                names = [k for k in args[0] if k != 'time']
            elif method == 'update' and len(args) == 2 and isinstance(args[0], (int, float)):
                names = [k for k, _ in args[1]]
            else:
                names = [a[0] for a in args]
                sig = dict((a[0], a[1]) for a in args)
            io = self.sd.get('io') or {}
            sio = None
            if io or self.sd.get('semantics', 'standard') != 'standard':
                groups = {}
                for k in names:
                    groups.setdefault(io.get(k), []).append(k)
                sio = max(sorted(groups, key=str), key=lambda g: len(groups[g]))
                mp = structs.mapping(groups[sio])
            else:
                mp = structs.mapping(names)
            if not mp:
                return
            if method == 'evaluate' and not (len(args) == 1 and isinstance(args[0], dict)):
                if not structs.aligned(sig, mp):
                    return
            sd2 = structs.sd(self.sd, mp, names)
            if io:
                sd2['io'] = dict((k, t) for k, t in io.items() if k not in mp)
            if sio:
                sd2['struct_io'] = sio
            spec = build_spec(self.kind, sd2)
            spec.parse()
            if self._pastified:
                spec.pastify()
        except Exception:
            REC.counts['struct-rebuild-raised'] += 1
            return
        self.spec, self._struct, self._hist = spec, mp, None
        REC.counts['struct-inputs:' + method] += 1
        LAST_HISTORY.append('object #%d: inputs given as fields of one object-typed variable (%s)' % (
            self.oid, ', '.join('%s=%s.%s' % (k, structs.VAR, f) for k, f in sorted(mp.items()))))

    def _struct_args(self, method, args):
        from rtverif import structs
        mp = self._struct
        if method == 'evaluate' and len(args) == 1 and isinstance(args[0], dict):
            return (structs.dt_dataset(args[0], mp),)
        if method == 'update' and len(args) == 2 and isinstance(args[0], (int, float)):
            return (args[0], structs.dt_inputs(list(args[1]), mp))
        return tuple(structs.ct_args([list(a) for a in args], mp))

    def _reparse(self):
        """History: the object parsed another formula in between - text A, then B, then A again (what an
        interactive user or a specification editor does).  Only for texts without in-text declarations and
        without sub-specifications (re-declaring those is refused cleanly by rtamt).  Never raises."""
        sd = self.sd
        text = sd.get('text', '')
        if ';' in text or 'const' in text or sd.get('subspecs') or not sd.get('vars'):
            return
        v = sd['vars'][0]
        # (rtamt keeps the assertions of earlier parse() calls and evaluates them along with the last one, whose
        # robustness it returns: the formula in between is free of bounds, so it can be evaluated under any
        # sampling period and unit)
        other = '%s((%s >= 2) and (once (%s <= 3)))' % ('out = ' if text.lstrip().startswith('out =') else '', v, v)
        try:
            self.spec.spec = other
            self.spec.parse()
            self.spec.spec = text
            self.spec.parse()
        except Exception:
            # re-parsing refused: not demanded by any property - continue with a fresh object
            REC.counts['history-raised:reparse'] += 1
            self.spec = build_spec(self.kind, sd)
            self.spec.parse()
            return
        REC.counts['history:reparse'] += 1
        LAST_HISTORY.append('object #%d: parsed %r in between and then its own text again' % (self.oid, other))

    def _other_text(self, h):
        """(other text, own text) for a re-parse around the prehistory evaluation, or None (same conditions as _reparse;
        20% of the offline prehistories)."""
        sd = self.sd
        text = sd.get('text', '')
        if not REPARSE or self._pastified or h.random() >= 0.2:
            return None
        if ';' in text or 'const' in text or sd.get('subspecs') or not sd.get('vars') or sd.get('struct'):
            return None
        v = sd['vars'][0]
        other = '%s((%s <= 2) or (historically (%s >= 3)))' % ('out = ' if text.lstrip().startswith('out =') else '', v, v)
        return other, text

    def _prehistory(self, h, method, args):
        """See HISTORY above.  Never raises; what it did is appended to LAST_HISTORY."""
        s, what = self.spec, None
        try:
            if method == 'evaluate' and len(args) == 1 and isinstance(args[0], dict) and 'time' in args[0]:
                d = args[0]
                n = len(d['time'])
                if n < 1:
                    return
                k = h.randint(1, n)
                d2 = dict((key, (list(col)[:k] if key == 'time' else _shuffled(h, col)[:k])) for key, col in d.items())
                what = 'evaluate() on %d other samples first' % k
                real = tuple(self.sd.get('period') or (1, 's', 0.1))
                half = None
                if h.random() < 0.4 and isinstance(real[0], int):
                    # ... under another sampling period (half of the real one, so all bounds stay multiples), which
                    # is set back before the workload's evaluation: the last configuration counts
                    finer = {'s': 'ms', 'ms': 'us', 'us': 'ns'}.get(real[1])
                    half = (real[0] // 2, real[1]) if real[0] % 2 == 0 else ((real[0] * 500, finer) if finer else None)
                poison = h.random() < 0.25 and len(d2) > 2
                if poison:
                    pk = h.choice(sorted(key for key in d2 if key != 'time'))
                    d2[pk] = [None] * k
                    what += ' (a call that fails: %s carries no numbers)' % pk
                elif '/' in self.sd.get('text', '') and h.random() < 0.4:
                    # ... or a call that fails deep inside the formula: a variable that is 0 throughout (division)
                    pk = h.choice(sorted(key for key in d2 if key != 'time'))
                    d2[pk] = [0.0] * k
                    what += ' (%s is 0 throughout: a division by it fails)' % pk
                elif half is None and '[' in self.sd.get('text', '') and h.random() < 0.2 and isinstance(real[0], int):
                    # ... or a call that is refused at evaluation time: under 7 times the sampling period the bounds
                    # are (in general) not multiples of the period; the period is set back afterwards
                    half = (real[0] * 7, real[1])
                    what += ' (a call that is refused if a bound is not a multiple of that period)'
                runit = self.sd.get('unit') or 's'
                ounit = None
                if half is None and h.random() < 0.3:
                    # ... or under another default unit (assigned to spec.unit), which is set back afterwards
                    ounit = {'s': 'ms', 'ms': 's', 'us': 'ms', 'ns': 'us'}[runit]
                    what += ' under the default unit %s' % ounit
                    s.unit = ounit
                if half is not None:
                    what += ' under the sampling period %s%s' % half
                    s.set_sampling_period(half[0], half[1], real[2] if len(real) > 2 else 0.1)
                around = self._other_text(h) if (half is None and ounit is None) else None
                try:
                    if around:
                        # ... and under ANOTHER formula: the object parses B, evaluates, and parses its own text again
                        s.spec = around[0]
                        s.parse()
                        what += ' while its text was %r (its own text parsed again afterwards)' % around[0]
                    s.evaluate(d2)
                    if EXPLAIN and h.random() < 0.3 and hasattr(s, 'explain'):
                        # ... and asks for its explanation: explain() reads the specification, it does not change it
                        s.explain()
                        what += ', then explain()'
                finally:
                    if half is not None:
                        s.set_sampling_period(*real)
                    if ounit is not None:
                        s.unit = runit
                    if around:
                        s.spec = around[1]
                        s.parse()
            elif method == 'evaluate' and args and all(isinstance(a, (list, tuple)) and len(a) == 2 for a in args):
                a2 = []
                for name, samples in args:
                    samples = [list(x) for x in samples]
                    vals = _shuffled(h, [x[1] for x in samples])
                    k = h.randint(1, len(samples)) if samples else 0
                    a2.append([name, [[samples[i][0], vals[i]] for i in range(k)]])
                what = 'evaluate() on other signals first'
                if h.random() < 0.25 and len(a2) > 1:
                    j = h.randrange(len(a2))
                    a2[j] = [a2[j][0], [[x[0], None] for x in a2[j][1]]]
                    what += ' (a call that fails: %s carries no numbers)' % a2[j][0]
                elif '/' in self.sd.get('text', '') and h.random() < 0.4 and a2:
                    j = h.randrange(len(a2))
                    a2[j] = [a2[j][0], [[x[0], 0.0] for x in a2[j][1]]]
                    what += ' (%s is 0 throughout: a division by it fails)' % a2[j][0]
                s.evaluate(*a2)
            elif method == 'update' and len(args) == 2 and isinstance(args[0], (int, float)):
                t0, ins = args
                ins = [tuple(x) for x in ins]
                k = h.randint(1, 5)
                what = '%d update() calls with other values, then reset()' % k
                if h.random() < 0.35:
                    # two earlier episodes: a reset() that only works the first time must show
                    for i in range(h.randint(1, 4)):
                        s.update(t0 + i, [(nm, val + h.choice([-2.0, 0.0, 1.0, 3.0])) for nm, val in ins])
                    s.reset()
                    what = 'an earlier episode + reset(), then ' + what
                bad = h.randrange(k) if (h.random() < 0.3 and len(ins) > 1) else None
                pv = h.randrange(len(ins))
                badval = 0.0 if ('/' in self.sd.get('text', '') and h.random() < 0.5) else None
                if bad is not None:
                    what = '%d update() calls with other values, the %s of which fails (%s is %s), then reset()' % (
                        k, ['first', 'second', 'third', 'fourth', 'fifth'][bad], ins[pv][0],
                        'None' if badval is None else '0: a division by it fails')
                for i in range(k):
                    try:
                        s.update(t0 + i, [(nm, (badval if (i == bad and j == pv) else val + h.choice([-1.0, 0.0, 1.0, 2.5])))
                                          for j, (nm, val) in enumerate(ins)])
                    except Exception:
                        if i != bad:
                            raise
                        REC.counts['history:failing-update'] += 1
                s.reset()
            elif method == 'update' and args and all(isinstance(a, (list, tuple)) and len(a) == 2 for a in args):
                a2 = []
                for name, samples in args:
                    samples = [list(x) for x in samples]
                    vals = _shuffled(h, [x[1] + h.choice([-1.0, 0.0, 1.0]) for x in samples])
                    a2.append([name, [[samples[i][0], vals[i]] for i in range(len(samples))]])
                what = 'one update() with other values, then reset()'
                if h.random() < 0.35:
                    s.update(*copy.deepcopy(a2))
                    s.reset()
                    what = 'an earlier episode + reset(), then ' + what
                s.update(*a2)
                s.reset()
            else:
                return
            REC.counts['history:' + method] += 1
        except Exception as e:
            REC.counts['history-raised:' + method] += 1
            what = (what or method) + ' (raised %s)' % type(e).__name__
            if method == 'update':
                try:
                    s.reset()
                except Exception:
                    pass
        if what:
            LAST_HISTORY.append('object #%d: %s' % (self.oid, what))

    def _neighbour(self, h, method, args):
        """Another object of the process with a confusable configuration - the same text, a sampling period with
        the same number and the next finer unit (discrete time; bounds stay multiples of it) or another default
        unit (dense time) - is built, parsed and driven with the same arguments first (C11: operations on one
        specification object never change the results of another).  Never raises."""
        sd = dict(self.sd)
        text = ' '.join([sd.get('text', '')] + list(sd.get('subspecs', ())))
        if any(k in text for k in ('since[', 'until[', 'unless[', 'S[', 'U[', 'W[')):
            return                      # rtamt's bounded since/until is quadratic in the window
        import re
        nums = [float(x) for iv in re.findall(r'\[([^\]]*)\]', text) for x in re.findall(r'\d+(?:\.\d+)?', iv)]
        if self.kind.startswith('dt') and nums and max(nums) > 4:
            return                      # the windows of the neighbour are 1000 times as many samples
        try:
            if self.kind.startswith('dt'):
                p = tuple(sd.get('period') or (1, 's', 0.1))
                finer = {'s': 'ms', 'ms': 'us', 'us': 'ns'}.get(p[1])
                if finer is None:
                    return
                sd['period'] = (p[0], finer) + tuple(p[2:])
            else:
                sd['unit'] = {'s': 'ms', 'ms': 'us', 'us': 'ns', 'ns': 'us'}[sd.get('unit') or 's']
            s2 = build_spec(self.kind, sd)
            s2.parse()
            if self._pastified:
                s2.pastify()
            getattr(s2, method)(*copy.deepcopy([list(a) if isinstance(a, tuple) else a for a in args]))
            REC.counts['history:neighbour-' + method] += 1
            LAST_HISTORY.append('object #%d: a neighbour object (same text, %s) was driven first' % (
                self.oid, 'period %s%s' % sd['period'][:2] if self.kind.startswith('dt') else 'unit ' + sd['unit']))
        except Exception:
            REC.counts['history-raised:neighbour'] += 1

    def _interloper(self, method, args):
        """Between two calls on this object another, brand-new object of the same class with another formula is
        parsed and driven with the same arguments (`for trace in traces: for spec in specs: spec.evaluate(trace)`).
        Never raises."""
        sd = self.sd
        if not sd.get('vars') or self._struct:
            return
        v = sd['vars'][0]
        try:
            s2 = build_spec(self.kind, dict(sd, text='((%s >= 2) or (once (%s <= 3)))' % (v, v), subspecs=[]))
            s2.parse()
            getattr(s2, method)(*copy.deepcopy([list(a) if isinstance(a, tuple) else a for a in args]))
            REC.counts['history:interloper-' + method] += 1
            LAST_HISTORY.append('object #%d: another new object of the same class was driven between two of its calls' % self.oid)
        except Exception:
            REC.counts['history-raised:interloper'] += 1

    def _do(self, method, *args):
        if method in ('evaluate', 'update'):
            self._ncalls = getattr(self, '_ncalls', 0) + 1
            if self._ncalls == 2 and HISTORY is not None and HISTORY.random() < 0.2:
                self._interloper(method, args)
        if method in ('evaluate', 'update') and self._parsed:
            if self._struct is None:
                self._structify(method, args)
            if self._struct:
                args = self._struct_args(method, args)
            elif self._typed is not None:
                args = typed_args(method, args, self._typed)
                if getattr(self, '_ncalls', 0) <= 1:
                    REC.counts['typed-data:' + method] += 1
                    LAST_HISTORY.append('object #%d: integral values passed as int%s' % (
                        self.oid, ' (0/1 as bool)' if self._typed[0] else ''))
        if self._hist is not None and method in ('evaluate', 'update'):
            h, self._hist = self._hist, None
            if h.random() < 0.3:
                self._neighbour(h, method, args)
            self._prehistory(h, method, args)
        if method == 'update' and self._rejected_calls is not None and self._rejected_calls.random() < 0.4:
            try:
                if len(args) == 2 and isinstance(args[0], (int, float)):
                    self.spec.update(args[0], None)
                else:
                    self.spec.update(None)
                REC.counts['history-raised:rejected-call-accepted'] += 1
                self._rejected_calls = None
            except Exception:
                REC.counts['history:rejected-update-between-updates'] += 1
                if not any('rejected before it consumed' in x for x in LAST_HISTORY):
                    LAST_HISTORY.append('object #%d: update() calls without data (None) were made between its updates and '
                                        'rejected before they consumed a sample' % self.oid)
        seq = REC.call(self.oid, method, args)
        try:
            r = getattr(self.spec, method)(*args)
        except BaseException as e:
            REC.ret(seq, self.oid, method, exc=e)
            raise
        REC.ret(seq, self.oid, method, result=r)
        return r

    def parse(self):
        return self._do('parse')

    def pastify(self):
        self._pastified = True
        r = self._do('pastify')
        if HISTORY is not None and HISTORY.random() < 0.1:
            # pastify() once more: a pastified specification has no future operator, and "pastify() does not change
            # the meaning of a specification that has no future operator" (an exception is the workload's to report)
            REC.counts['history:second-pastify'] += 1
            LAST_HISTORY.append('object #%d: pastify() was called a second time on the pastified specification' % self.oid)
            self._do('pastify')
        return r

    def reset(self):
        return self._do('reset')

    def evaluate(self, *args):
        return self._do('evaluate', *args)

    def update(self, *args):
        return self._do('update', *args)

    def get_value(self, name):
        return self._do('get_value', name)

    def explain(self):
        return self._do('explain')

    @property
    def counter(self):
        return self.spec.sampling_violation_counter


def dt_dataset(data, n=None, times=None):
    """Build the discrete offline dataset dict from {var: [values]} (fresh lists)."""
    if n is None:
        n = len(next(iter(data.values()))) if data else 0
    ds = {'time': list(times) if times is not None else list(range(n))}
    for k, v in data.items():
        ds[k] = list(v[:n])
    return ds


def dt_offline(text, names, data, n=None, times=None, kind='dt', sd=None):
    """Parse a fresh spec, evaluate, return the value column."""
    sdd = {'text': text, 'vars': list(names)}
    if sd:
        sdd.update(sd)
    m = Mon(kind, sdd)
    res = m.evaluate(dt_dataset(data, n, times))
    return res


def values(res):
    return [r[1] for r in res]


def dt_online(text, names, data, n=None, times=None, kind='dt', sd=None, pastify=False, prelude=None):
    """Parse a fresh spec, feed the samples one by one, return the list of update() values.
    prelude: {var: [values]} of an earlier run on the same object, which is fed first and followed by reset()."""
    sdd = {'text': text, 'vars': list(names)}
    if sd:
        sdd.update(sd)
    m = Mon(kind, sdd, pastify=pastify)
    if prelude:
        for i in range(len(prelude[names[0]])):
            m.update(i, [(v, prelude[v][i]) for v in names])
        m.reset()
    if n is None:
        n = len(next(iter(data.values())))
    out = []
    for i in range(n):
        t = i if times is None else times[i]
        out.append(m.update(t, [(v, data[v][i]) for v in names]))
    return out


def is_rtamt_exc(e):
    return isinstance(e, RTAMTException)


# ---------------------------------------------------------------------------------------
# dense time

def ct_args(signals, names=None):
    """{var: [(t, v), ..]} -> evaluate()/update() argument list with fresh float lists."""
    names = names if names is not None else sorted(signals)
    return [[k, [[float(t), float(v)] for (t, v) in signals[k]]] for k in names]


def ct_offline(text, names, signals, kind='ct', sd=None):
    sdd = {'text': text, 'vars': list(names)}
    if sd:
        sdd.update(sd)
    m = Mon(kind, sdd)
    return m.evaluate(*ct_args(signals, names))
