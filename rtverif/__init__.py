"""rtverif: runtime-monitoring machinery for the 20 rtamt properties (see /verif/DESIGN.md)."""
