"""Boolean STL satisfaction (discrete and dense time), independent of rtamt.

Satisfaction is computed in the two-point lattice {-1, +1} (extended by the boundary values
-inf/+inf of the weak/strong operators and empty windows): a predicate contributes +1 where it
holds (strictness honoured) and -1 where it does not; not/and/or/implies and every temporal
operator are then exactly negation/min/max over that lattice, i.e. the Boolean semantics with
the same boundary conventions as the quantitative one.  verdict(t) = value(t) > 0.
"""
from rtverif import ref_discrete, ref_dense

HOLDS = {
    'leq': lambda l, r: l <= r, 'lt': lambda l, r: l < r, 'geq': lambda l, r: l >= r, 'gt': lambda l, r: l > r,
    'eq': lambda l, r: l == r, 'neq': lambda l, r: l != r,
}


def _hook_discrete(f, left, right, dflt):
    fn = HOLDS[f[0]]
    return [1.0 if fn(a, b) else -1.0 for a, b in zip(left, right)]


def _hook_dense(f, left, right, dflt):
    fn = HOLDS[f[0]]
    return ref_dense.pointwise(lambda a, b: 1.0 if fn(a, b) else -1.0, left, right)


def sat_discrete(f, data, n):
    """List of booleans: f satisfied at sample t."""
    return [v > 0 for v in ref_discrete.evaluate(f, data, n, pred_hook=_hook_discrete)]


def sat_dense(f, signals):
    """Step function with values +-1/+-inf; satisfied where > 0."""
    return ref_dense.evaluate(f, signals, pred_hook=_hook_dense)


def boolean_typed(f):
    """True for formulas whose Boolean reading is defined: arithmetic only below predicates,
    no temporal/Boolean operator below arithmetic, no iff/xor."""
    from rtverif import lang
    o = f[0]
    if o in lang.CMP:
        return all(_arith_only(k) for k in f[2:])
    if o in ('iff', 'xor') or o in ('var', 'const') or o in lang.UN_ARITH or o in lang.BIN_ARITH:
        return False
    return all(boolean_typed(k) for k in f[2:])


def _arith_only(f):
    from rtverif import lang
    o = f[0]
    if o in ('var', 'const'):
        return True
    if o in lang.UN_ARITH or o in lang.BIN_ARITH:
        return all(_arith_only(k) for k in f[2:])
    return False


def var_vs_const_only(f):
    """Every predicate compares one variable with a constant."""
    from rtverif import lang
    for g in lang.walk(f):
        if g[0] in lang.CMP:
            kinds = sorted(k[0] for k in g[2:])
            if kinds != ['const', 'var']:
                return False
    return True
