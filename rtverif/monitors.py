"""Monitors attached from the harness: tripwire argument objects and contracts on real functions."""
import sys
import traceback


class Tripwire(object):
    """Shared log of mutations performed on guarded caller data."""

    def __init__(self):
        self.events = []

    def hit(self, what):
        where = '?'
        for fr in reversed(traceback.extract_stack()[:-2]):
            if '/rtamt/' in fr.filename and '/rtverif/' not in fr.filename:
                where = '%s:%d (%s)' % (fr.filename.split('/rtamt/', 1)[1], fr.lineno, fr.name)
                break
        self.events.append('%s at %s' % (what, where))


def _guard(name):
    def method(self, *a, **k):
        self._tw.hit('%s.%s' % (self._label, name))
        return getattr(list, name)(self, *a, **k)
    method.__name__ = name
    return method


class GuardedList(list):
    """list whose mutating methods report to a Tripwire (the value semantics are unchanged)."""

    def __init__(self, items, tw, label):
        list.__init__(self, items)
        self._tw = tw
        self._label = label

    def __deepcopy__(self, memo):
        import copy
        return [copy.deepcopy(x, memo) for x in self]

    def __reduce__(self):
        return (list, (list(self),))


for _n in ('append', 'extend', 'insert', 'pop', 'remove', 'clear', 'sort', 'reverse', '__setitem__',
           '__delitem__', '__iadd__', '__imul__'):
    setattr(GuardedList, _n, _guard(_n))


class GuardedDict(dict):
    def __init__(self, items, tw, label):
        dict.__init__(self, items)
        self._tw = tw
        self._label = label

    def __setitem__(self, k, v):
        self._tw.hit('%s[%r] = ...' % (self._label, k))
        dict.__setitem__(self, k, v)

    def __delitem__(self, k):
        self._tw.hit('del %s[%r]' % (self._label, k))
        dict.__delitem__(self, k)

    def pop(self, *a):
        self._tw.hit('%s.pop' % self._label)
        return dict.pop(self, *a)

    def update(self, *a, **k):
        self._tw.hit('%s.update' % self._label)
        return dict.update(self, *a, **k)

    def setdefault(self, *a):
        self._tw.hit('%s.setdefault' % self._label)
        return dict.setdefault(self, *a)

    def clear(self):
        self._tw.hit('%s.clear' % self._label)
        dict.clear(self)


def plain(x):
    """Deep plain copy (lists/dicts/tuples of numbers) used for before/after comparison."""
    if isinstance(x, dict):
        return dict((k, plain(v)) for k, v in x.items())
    if isinstance(x, (list, tuple)):
        return [plain(v) for v in x]
    return x


def same_plain(a, b):
    if isinstance(a, dict):
        return isinstance(b, dict) and set(a) == set(b) and all(same_plain(a[k], b[k]) for k in a)
    if isinstance(a, list):
        return isinstance(b, list) and len(a) == len(b) and all(same_plain(x, y) for x, y in zip(a, b))
    if isinstance(a, float) and isinstance(b, float):
        return a == b or (a != a and b != b)
    return a == b and type(a) == type(b)


def same_num(a, b):
    """Like same_plain, but numbers are compared by value (an int, a bool and a float of the same value are the
    same datum): for comparing what two executions return, not for the before/after comparison of caller data."""
    if isinstance(a, dict):
        return isinstance(b, dict) and set(a) == set(b) and all(same_num(a[k], b[k]) for k in a)
    if isinstance(a, (list, tuple)):
        return isinstance(b, (list, tuple)) and len(a) == len(b) and all(same_num(x, y) for x, y in zip(a, b))
    import numbers
    if isinstance(a, numbers.Number) and isinstance(b, numbers.Number):
        return a == b or (a != a and b != b)
    return a == b and type(a) == type(b)
