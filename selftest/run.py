#!/venv/bin/python
"""Self-test of the oracles (run by setup.sh and usable stand-alone).  Fast (< 30 s).

(a) the discrete reference reproduces the expected literals of the repository's own offline suite
    (tests/python/api/test_stl_discrete_time_offline_specification.py; the suite is the pinned
    authority for the conventions: weak prev/next, strong s_prev/s_next, rise/fall at 0, empty
    windows);
(b) the window formulation and the one-step-recursion formulation of every unbounded temporal
    operator agree on random cases;
(c) the dense reference sampled on the grid equals the discrete reference on the C19 fragment;
(d) every text the generators print is derivable for the grammar recogniser and accepted by ANTLR;
(e) the Boolean evaluator agrees with the sign of the quantitative reference where that is non-zero.
"""
import os
import random
import sys

HERE = os.path.dirname(os.path.dirname(os.path.abspath(__file__)))
sys.path.insert(0, os.environ.get('RTVERIF_REPO', '/repo'))
sys.path.insert(0, HERE)
_out = sys.stdout
sys.stdout = open(os.devnull, 'w')

from fractions import Fraction as Fr
from rtverif import lang, grammar, ref_bool, ref_dense, drive
from rtverif import ref_discrete as ref
from rtverif.lang import N, V, C

INF = float('inf')
REQ, GNT = V('req'), V('gnt')
DATA = {'req': [100, -1, -2, 5, -1], 'gnt': [20, -2, 10, 4, -1]}
SUITE = [
    (N('add', REQ, GNT), [120, -3, 8, 9, -2]), (N('sub', REQ, GNT), [80, 1, -12, 1, 0]),
    (N('mul', REQ, GNT), [2000, 2, -20, 20, 1]), (N('abs', REQ), [100, 1, 2, 5, 1]),
    (N('prev', REQ), [INF, 100, -1, -2, 5]), (N('s_prev', REQ), [-INF, 100, -1, -2, 5]),
    (N('next', REQ), [-1, -2, 5, -1, INF]), (N('s_next', REQ), [-1, -2, 5, -1, -INF]),
    (N('and', REQ, GNT), [20, -2, -2, 4, -1]), (N('or', REQ, GNT), [100, -1, 10, 5, -1]),
    (N('iff', REQ, GNT), [-80, -1, -12, -1, 0]), (N('xor', REQ, GNT), [80, 1, 12, 1, 0]),
    (N('implies', REQ, GNT), [20, 1, 10, 4, 1]), (N('always', REQ), [-2, -2, -2, -1, -1]),
    (N('always', REQ, ivl=(0, 1)), [-1, -2, -2, -1, -1]), (N('historically', REQ), [100, -1, -2, -2, -2]),
    (N('once', REQ), [100, 100, 100, 100, 100]), (N('eventually', REQ), [100, 5, 5, 5, -1]),
    (N('eventually', REQ, ivl=(0, 1)), [100, -1, 5, 5, -1]), (N('since', REQ, GNT), [20, -1, 10, 5, -1]),
    (N('once', REQ, ivl=(0, 1)), [100, 100, -1, 5, 5]), (N('once', REQ, ivl=(1, 2)), [-INF, 100, 100, -1, 5]),
    (N('historically', REQ, ivl=(0, 1)), [100, -1, -2, -2, -1]),
    (N('historically', REQ, ivl=(1, 2)), [INF, 100, -1, -2, -2]),
    (N('since', REQ, GNT, ivl=(0, 1)), [20, -1, 10, 5, -1]), (N('not', REQ), [-100, 1, 2, -5, 1]),
    (N('rise', REQ), [100, -100, -2, 2, -5]), (N('fall', REQ), [-100, 1, -1, -5, 1]),
    (N('leq', REQ, GNT), [-80, -1, 12, -1, 0]), (N('geq', REQ, GNT), [80, 1, -12, 1, 0]),
    (N('eq', REQ, GNT), [-80, -1, -12, -1, 0]), (N('neq', REQ, GNT), [80, 1, 12, 1, 0]),
    (N('until', REQ, GNT), [20, -1, 10, 4, -1]), (N('until', REQ, GNT, ivl=(0, 1)), [20, -1, 10, 4, -1]),
]

fails = []


def check(cond, msg):
    if not cond:
        fails.append(msg)


# (a)
for f, want in SUITE:
    got = ref.evaluate(f, DATA, 5)
    check(got == [float(w) for w in want], 'suite literal: %s -> %s, expected %s' % (lang.to_text(f), got, want))
    real = drive.values(drive.dt_offline(lang.to_text(f), ['req', 'gnt'], DATA))
    check(real == [float(w) for w in want], 'real monitor vs suite literal: %s -> %s' % (lang.to_text(f), real))

# (b)
rng = random.Random(7)
for _ in range(1500):
    c = lang.GenCfg(vars=['x', 'y'], max_depth=3, timed=False, unless=False)
    f = lang.gen_formula(rng, c)
    n = rng.randint(1, 12)
    d = lang.gen_trace(rng, ['x', 'y'], n)
    try:
        a, b = ref.evaluate(f, d, n), ref.evaluate_rec(f, d, n)
    except ref.Undefined:
        continue
    check(all(ref.same(x, y) or x != x for x, y in zip(b, a)), 'two formulations differ: %s on %s' % (lang.to_text(f), d))

# (c)
for _ in range(400):
    c = lang.GenCfg(vars=['x', 'y'], max_depth=3, prevnext=False, events=False, since_until=False,
                    unbounded_future=False, max_bound=4)
    f = lang.gen_formula(rng, c)
    n = rng.randint(2, 12)
    d = lang.gen_trace(rng, ['x', 'y'], n)
    try:
        disc = ref.evaluate(f, d, n)
        dense = ref_dense.evaluate(f, dict((k, [(Fr(i), d[k][i]) for i in range(n)]) for k in d))
    except ref.Undefined:
        continue
    h = lang.horizon(f)
    for k in range(max(0, n - h)):
        check(ref.same(dense.at(Fr(k)), disc[k]) or dense.at(Fr(k)) != dense.at(Fr(k)),
              'dense vs discrete reference: %s at %d' % (lang.to_text(f), k))

# (d)
import rtamt
for _ in range(400):
    c = lang.GenCfg(vars=['x', 'y', 'req'], max_depth=rng.choice([1, 2, 3, 4]), unless=True, transcend=True, untyped=0.2)
    f = lang.gen_formula(rng, c)
    for txt in (lang.to_text(f), lang.to_variant(f, lang.Style(rng=rng, alias=0.5, colon=0.5, minimal=rng.random() < 0.5))):
        ok, why = grammar.derivable(txt + ';')
        check(ok, 'generator text not derivable: %r (%s)' % (txt, why))
        try:
            drive.Mon('dt', {'text': txt, 'vars': ['x', 'y', 'req']})
        except Exception as e:
            check(False, 'generator text rejected by rtamt: %r (%s)' % (txt, e))

# (e)
for _ in range(600):
    c = lang.GenCfg(vars=['x', 'y'], max_depth=3, iffxor=False, unless=True, const_pred=0.0)
    f = lang.gen_formula(rng, c)
    if not ref_bool.boolean_typed(f):
        continue
    n = rng.randint(1, 10)
    d = lang.gen_trace(rng, ['x', 'y'], n)
    try:
        q = ref.evaluate(f, d, n)
        s = ref_bool.sat_discrete(f, d, n)
    except ref.Undefined:
        continue
    for t in range(n):
        if q[t] == q[t] and q[t] != 0:
            check((q[t] > 0) == s[t], 'Boolean evaluator vs sign of the reference: %s at %d on %s' % (lang.to_text(f), t, d))

sys.stdout = _out
if fails:
    print('SELFTEST FAILED (%d)' % len(fails))
    for m in fails[:10]:
        print('  ' + m[:400])
    sys.exit(1)
print('selftest ok: %d suite literals, formulations, dense/discrete, grammar, Boolean evaluator' % len(SUITE))
